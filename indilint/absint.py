"""Path-enumerating abstract interpreter over the repository's ASTs.

This is the engine behind the ordering / pairing / truth-table rules.  A function body is
interpreted over *abstract values*:

* ``Const``   a Python constant (None, bool, int, float, str, bytes)
* ``Tup/Lst/Dct``  containers whose elements are abstract values
* ``Obj``     an abstract instance of a repository class (class known, attributes abstract)
* ``Cls/Fn/Mod/Foreign/Builtin``  program entities
* ``Term``    an opaque symbolic value: a term over parameters, attribute reads, calls ...

Locals are substituted by their defining terms, so a rule never depends on the names or
number of local variables.  Whenever a branch condition is not decided by the abstract
values the exploration forks; every complete path yields a list of *events* (calls,
stores, assumptions, awaits, with-blocks, returns, raises), which is what rules inspect.

Nothing of the analysed code is executed by CPython: the interpreter below implements the
(small) statement/expression subset the repository uses, over abstract values only, and
raises ``Undecided`` on anything else.
"""
from __future__ import annotations

import ast
import os
from typing import Callable, Dict, List, Optional

from .model import (
    UNKNOWN,
    ClassInfo,
    FunctionInfo,
    Module,
    Program,
    Undecided,
    stmt_text,
)

# --------------------------------------------------------------------------- values


class Value:
    hint: Optional[ClassInfo] = None


class Const(Value):
    __slots__ = ("v",)

    def __init__(self, v):
        self.v = v

    def __repr__(self):
        return f"Const({self.v!r})"


class Tup(Value):
    def __init__(self, items):
        self.items = list(items)

    def __repr__(self):
        return f"Tup({self.items})"


class SetV(Tup):
    """A set / frozenset: the elements in insertion order, no two the same; mutable in place (add, discard, ...)."""

    def __repr__(self):
        return f"SetV({self.items})"


class Lst(Value):
    def __init__(self, items, label=None):
        self.items = list(items)
        self.label = label

    def __repr__(self):
        return f"Lst({self.items})"


class NTup(Tup):
    """An instance of a typing.NamedTuple class: a tuple whose positions also have names."""
    def __init__(self, ci, items):
        Tup.__init__(self, items)
        self.ci = ci
        self.names = [n for n, _ in ci.namedtuple_fields]

    def field(self, name):
        return self.items[self.names.index(name)] if name in self.names else None


class Gen(Lst):
    """The object a generator FUNCTION returns: its body runs lazily, one step per request, interleaved with the consumer
    exactly as in Python (implemented as a coroutine on a helper thread with strict hand-off: one side runs at a time).
    '.items' hands out everything that is left (and runs the body to its end), so code that treats the value as a list
    gets the remaining elements; a for loop and next() pull one element at a time."""
    is_gen = True

    def __init__(self, interp, fn, frame, node):
        self.label = None
        self.consumed = False
        self._it = interp
        self._fn = fn
        self._frame = frame
        self._node = node
        self._thread = None
        self._finished = False
        self._closing = False
        self._out = None
        self._state = None
        import threading
        self._resume = threading.Semaphore(0)
        self._yielded = threading.Semaphore(0)
        interp.__dict__.setdefault("_live_gens", []).append(self)

    # -- consumer side
    def pull(self):
        """-> (value,) for the next element, or None when the generator is exhausted; exceptions of the body propagate."""
        if self._finished:
            return None
        it = self._it
        import threading
        if self._thread is not None and threading.current_thread() is self._thread:
            raise Undecided("generator already executing")
        if self._thread is None:
            fi = self._fn.fi
            self._state = (it.depth + 1, list(it.fn_stack) + [fi], it.ctx, list(it.__dict__.get("_cm_stack", [])))
            self._thread = threading.Thread(target=self._body, daemon=True)
            self._thread.start()
        mine = (it.depth, list(it.fn_stack), it.ctx, list(it.__dict__.get("_cm_stack", [])), getattr(it, "cur_stmt", None))
        it.depth, it.fn_stack[:], it.ctx = self._state[0], self._state[1], self._state[2]
        it.__dict__["_cm_stack"] = self._state[3]
        self._resume.release()
        self._yielded.acquire()
        self._state = (it.depth, list(it.fn_stack), it.ctx, list(it.__dict__.get("_cm_stack", [])))
        it.depth, it.fn_stack[:], it.ctx = mine[0], mine[1], mine[2]
        it.__dict__["_cm_stack"] = mine[3]
        it.cur_stmt = mine[4]
        out, self._out = self._out, None
        if out[0] == "yield":
            return (out[1],)
        if out[0] == "exc":
            raise out[1]
        return None

    def close(self):
        if self._thread is not None and not self._finished:
            self._closing = True
            try:
                self.pull()
            except BaseException:
                pass
        self._finished = True

    @property
    def items(self):
        out = []
        while True:
            r = self.pull()
            if r is None:
                return out
            out.append(r[0])

    @items.setter
    def items(self, v):
        pass

    # -- producer side (runs on the helper thread)
    def _body(self):
        self._resume.acquire()
        it = self._it
        try:
            if self._closing:
                raise _GenClose()
            with it.context("inline", self._fn.fi, self._node):
                it.exec_block(self._fn.fi.node.body, self._frame)
            self._out = ("done",)
        except (_Return, _GenClose):
            self._out = ("done",)
        except BaseException as e:  # noqa: B902 - every outcome of the body belongs to the consumer
            self._out = ("exc", e)
        finally:
            self._finished = True
            self._yielded.release()

    def emit_value(self, v):
        self._out = ("yield", v)
        self._yielded.release()
        self._resume.acquire()
        if self._closing:
            raise _GenClose()

    def __repr__(self):
        return f"Gen({self._fn.fi.name})"


class Dct(Value):
    def __init__(self, pairs=(), label=None):
        self.pairs = [list(p) for p in pairs]
        self.label = label

    def get(self, key):
        for k, v in self.pairs:
            if same_value(k, key) is True:
                return v
        return None

    def set(self, key, val):
        for p in self.pairs:
            if same_value(p[0], key) is True:
                p[1] = val
                return
        self.pairs.append([key, val])

    def delete(self, key):
        self.pairs = [p for p in self.pairs if same_value(p[0], key) is not True]

    def __repr__(self):
        return f"Dct({self.pairs})"


class DDct(Dct):
    """collections.Counter / defaultdict: a dict whose missing keys read as a default.  kind 'counter' reads 0 without
    inserting; 'int' / 'list' / 'dict' / 'set' insert the fresh default on a subscript read, as defaultdict does."""

    def __init__(self, kind, pairs=(), label=None):
        Dct.__init__(self, pairs, label)
        self.kind = kind

    def default(self):
        return {"counter": lambda: Const(0), "int": lambda: Const(0), "list": lambda: Lst([]), "dict": lambda: Dct([]), "set": lambda: SetV([])}[self.kind]()


class Obj(Value):
    def __init__(self, cls: Optional[ClassInfo], attrs=None, label="obj"):
        self.cls = cls
        self.hint = cls
        self.attrs: Dict[str, Value] = dict(attrs or {})
        self.label = label

    def __repr__(self):
        return f"Obj({self.label})"


class Cls(Value):
    def __init__(self, ci: ClassInfo):
        self.ci = ci

    def __repr__(self):
        return f"Cls({self.ci.name})"


class Fn(Value):
    def __init__(self, fi: FunctionInfo, self_val=None, closure=None):
        self.fi = fi
        self.self_val = self_val
        self.closure = closure

    def __repr__(self):
        return f"Fn({self.fi.qualname})"


class Mod(Value):
    def __init__(self, m: Module):
        self.m = m


class Foreign(Value):
    def __init__(self, dotted: str):
        self.dotted = dotted

    def __repr__(self):
        return f"Foreign({self.dotted})"


class Builtin(Value):
    def __init__(self, name: str):
        self.name = name

    def __repr__(self):
        return f"Builtin({self.name})"


class Term(Value):
    """Opaque symbolic value."""

    def __init__(self, op: str, *args, hint: ClassInfo = None, node=None, pytype: str = None):
        self.op = op
        self.args = args
        self.hint = hint
        self.node = node
        self.pytype = pytype  # "int" / "str" / "bytes" / "bool" when the value's Python type is known

    def __repr__(self):
        return f"Term<{show(self)}>"


def param(name: str, hint: ClassInfo = None) -> Term:
    return Term("param", name, hint=hint)


def show(v) -> str:
    """Canonical text of an abstract value (locals already substituted)."""
    if isinstance(v, Const):
        return repr(v.v)
    if isinstance(v, NTup):
        return v.ci.name + "(" + ", ".join(f"{n}={show(x)}" for n, x in zip(v.names, v.items)) + ")"
    if isinstance(v, Tup):
        return "(" + ", ".join(show(x) for x in v.items) + ("," if len(v.items) == 1 else "") + ")"
    if isinstance(v, Gen):
        return f"<generator {v._fn.fi.name}>"
    if isinstance(v, Lst):
        return "[" + ", ".join(show(x) for x in v.items) + "]"
    if isinstance(v, Dct):
        return "{" + ", ".join(f"{show(k)}: {show(x)}" for k, x in v.pairs) + "}"
    if isinstance(v, Obj):
        return v.label
    if isinstance(v, Cls):
        return v.ci.name
    if isinstance(v, Fn):
        if v.self_val is not None:
            return f"{show(v.self_val)}.{v.fi.name}"
        return v.fi.name
    if isinstance(v, Mod):
        return v.m.name
    if isinstance(v, Foreign):
        return v.dotted
    if isinstance(v, Builtin):
        return v.name
    if isinstance(v, Term):
        a = v.args
        op = v.op
        if op == "param":
            return a[0]
        if op == "attr":
            return f"{show(a[0])}.{a[1]}"
        if op == "call":
            args = [show(x) for x in a[1]] + [f"{k}={show(x)}" if k else f"**{show(x)}" for k, x in a[2]]
            return f"{show(a[0])}({', '.join(args)})"
        if op == "sub":
            return f"{show(a[0])}[{show(a[1])}]"
        if op == "slice":
            return ":".join("" if x is None else show(x) for x in a)
        if op == "binop":
            return f"({show(a[1])} {a[0]} {show(a[2])})"
        if op == "cmp":
            return f"({show(a[1])} {a[0]} {show(a[2])})"
        if op == "not":
            return f"(not {show(a[0])})"
        if op in ("and", "or"):
            return "(" + f" {op} ".join(show(x) for x in a) + ")"
        if op == "ifexp":
            return f"({show(a[1])} if {show(a[0])} else {show(a[2])})"
        if op == "await":
            return f"await {show(a[0])}"
        if op == "elem":
            return f"elem({show(a[0])})#{a[1]}"
        if op == "key":
            return f"key({show(a[0])})#{a[1]}"
        if op == "val":
            return f"val({show(a[0])})#{a[1]}"
        if op == "unpack":
            return f"{show(a[0])}<{a[1]}>"
        if op == "comp":
            conds = "".join(f" if {show(c)}" for c in a[2])
            return f"{a[3]}({show(a[0])} for {show(a[1])}{conds})"
        if op == "fstr":
            return "f'" + "".join(x if isinstance(x, str) else "{" + show(x[0]) + (":" + x[1] if x[1] else "") + "}" for x in a) + "'"
        if op == "star":
            return "*" + show(a[0])
        if op == "global":
            return a[0].rsplit(".", 1)[-1]
        if op == "view":
            return show(a[0]) + ("" if a[1] == "dict" else f".{a[1]}()")
        if op == "lambda":
            return f"<lambda@{a[0]}>"
        if op == "exc":
            return f"exc:{a[0]}"
        if op == "unary":
            return f"({a[0]}{show(a[1])})"
        return f"{op}(" + ", ".join(show(x) if isinstance(x, Value) else repr(x) for x in a) + ")"
    return repr(v)


def subterms(v):
    """All abstract values nested in ``v`` (including itself)."""
    yield v
    if isinstance(v, (Tup, Lst)):
        for x in v.items:
            yield from subterms(x)
    elif isinstance(v, Dct):
        for k, x in v.pairs:
            yield from subterms(k)
            yield from subterms(x)
    elif isinstance(v, Fn):
        if v.self_val is not None:
            yield from subterms(v.self_val)
    elif isinstance(v, Term):
        for a in v.args:
            if isinstance(a, Value):
                yield from subterms(a)
            elif isinstance(a, (list, tuple)):
                for b in a:
                    if isinstance(b, Value):
                        yield from subterms(b)
                    elif isinstance(b, (list, tuple)):
                        for c in b:
                            if isinstance(c, Value):
                                yield from subterms(c)


def mentions(v, pred) -> bool:
    return any(pred(t) for t in subterms(v))


def is_attr(t, name=None, base=None) -> bool:
    if not (isinstance(t, Term) and t.op == "attr"):
        return False
    if name is not None and t.args[1] != name:
        return False
    if base is not None and show(t.args[0]) != base:
        return False
    return True


def is_call(t, method=None, func=None) -> bool:
    """Term is a call; ``method`` matches the attribute name of the callee,
    ``func`` the canonical text of the callee."""
    if not (isinstance(t, Term) and t.op == "call"):
        return False
    callee = t.args[0]
    if method is not None:
        if isinstance(callee, Term) and callee.op == "attr":
            if callee.args[1] != method:
                return False
        elif isinstance(callee, Fn):
            if callee.fi.name != method:
                return False
        elif isinstance(callee, Foreign):
            # a module-level function of a foreign module, e.g. asyncio.create_task(...) for method="create_task"
            if callee.dotted.split(".")[-1] != method:
                return False
        else:
            return False
    if func is not None and show(callee) != func:
        return False
    return True


def same_value(a, b):
    """True / False when decided, None when unknown."""
    if a is b:
        return True
    if isinstance(a, Const) and isinstance(b, Const):
        try:
            return type(a.v) == type(b.v) and a.v == b.v or (a.v == b.v and not isinstance(a.v, bool) and not isinstance(b.v, bool))
        except Exception:
            return None
    if isinstance(a, Obj) and isinstance(b, Obj):
        return False  # distinct abstract objects are distinct (no __eq__ override modelled)
    if isinstance(a, Cls) and isinstance(b, Cls):
        return a.ci is b.ci
    if isinstance(a, Builtin) and isinstance(b, Builtin):
        return a.name == b.name
    if (isinstance(a, Builtin) and isinstance(b, Cls)) or (isinstance(a, Cls) and isinstance(b, Builtin)):
        return False
    if isinstance(a, (Const,)) and isinstance(b, (Obj, Cls, Lst, Dct, Tup)):
        return False
    if isinstance(b, (Const,)) and isinstance(a, (Obj, Cls, Lst, Dct, Tup)):
        return False
    if isinstance(a, (Lst, Tup, Dct)) and isinstance(b, (Lst, Tup, Dct)) and type(a) is not type(b):
        return False
    if isinstance(a, Dct) and isinstance(b, Dct):
        if len(a.pairs) != len(b.pairs):
            return False
        res = True
        for k, v in a.pairs:
            w = b.get(k)
            if w is None:
                if all(same_value(k, k2) is False for k2, _ in b.pairs):
                    return False
                return None
            r = same_value(v, w)
            if r is False:
                return False
            if r is None:
                res = None
        return res
    if isinstance(a, SetV) and isinstance(b, SetV):
        if len(a.items) != len(b.items):
            return False
        res = True
        for x in a.items:
            rs = [same_value(x, y) for y in b.items]
            if any(r is True for r in rs):
                continue
            if all(r is False for r in rs):
                return False
            res = None
        return res
    if isinstance(a, (Tup, Lst)) and isinstance(b, (Tup, Lst)) and type(a) is type(b):
        if len(a.items) != len(b.items):
            return False
        res = True
        for x, y in zip(a.items, b.items):
            r = same_value(x, y)
            if r is False:
                return False
            if r is None:
                res = None
        return res
    if isinstance(a, Term) and a.pytype and isinstance(b, Const) and (b.v is None or type(b.v).__name__ not in (a.pytype, "bool" if a.pytype == "int" else a.pytype, "int" if a.pytype == "bool" else a.pytype)):
        return False
    if isinstance(b, Term) and b.pytype and isinstance(a, Const) and (a.v is None or type(a.v).__name__ not in (b.pytype, "bool" if b.pytype == "int" else b.pytype, "int" if b.pytype == "bool" else b.pytype)):
        return False
    if isinstance(a, Term) and isinstance(b, Term) and a.op == "call" and b.op == "call" and isinstance(a.args[0], Builtin) and isinstance(b.args[0], Builtin) and a.args[0].name == b.args[0].name and a.args[0].name in ("str", "repr", "int", "float", "bool", "len", "bytes", "tuple", "abs") and len(a.args[1]) == len(b.args[1]) and not a.args[2] and not b.args[2]:
        # a pure conversion of the very same value(s) is the same value
        if all(x is y or same_value(x, y) is True for x, y in zip(a.args[1], b.args[1])):
            return True
    if isinstance(a, Term) and isinstance(b, Term) and show(a) == show(b):
        return None  # syntactically equal terms: probably equal, but not decided
    return None


# --------------------------------------------------------------------------- events


class Event:
    __slots__ = ("kind", "node", "data", "ctx", "fn", "idx")

    def __init__(self, kind, node, data, ctx, fn):
        self.kind = kind
        self.node = node
        self.data = data
        self.ctx = ctx  # tuple of context frames (loop / try / with / inline)
        self.fn = fn  # FunctionInfo in which it happened
        self.idx = -1

    @property
    def line(self):
        return getattr(self.node, "lineno", 0)

    def in_ctx(self, kind, pred=None):
        for c in self.ctx:
            if c[0] == kind and (pred is None or pred(c)):
                return True
        return False

    def __repr__(self):
        d = self.data
        if self.kind == "call":
            s = show(d["term"])
        elif self.kind == "store":
            s = f"{show(d['target'])} = {show(d['value'])}"
        elif self.kind == "assume":
            s = f"{show(d['cond'])} is {d['truth']}"
        elif self.kind in ("return", "raise", "await"):
            s = show(d["value"]) if d.get("value") is not None else ""
        else:
            s = str({k: (show(v) if isinstance(v, Value) else v) for k, v in d.items()})
        return f"<{self.kind}@{self.line} {s}>"


class Path:
    def __init__(self):
        self.events: List[Event] = []
        self.outcome = None  # "return" | "raise" | "truncated"
        self.value = None
        self.decisions = []

    def calls(self, method=None, func=None):
        return [e for e in self.events if e.kind == "call" and is_call(e.data["term"], method, func)]

    def stores(self, attr=None):
        out = []
        for e in self.events:
            if e.kind == "store":
                t = e.data["target"]
                if attr is None or (isinstance(t, Term) and t.op == "attr" and t.args[1] == attr):
                    out.append(e)
        return out

    def assumes(self):
        return [e for e in self.events if e.kind == "assume"]

    def describe(self, limit=40):
        return [repr(e) for e in self.events[:limit]]


# ------------------------------------------------------------------ control signals


class _Return(Exception):
    def __init__(self, value):
        self.value = value


class _Raise(Exception):
    def __init__(self, value, node):
        self.value = value
        self.node = node


class _Break(Exception):
    pass


class _Continue(Exception):
    pass


class _Truncate(Exception):
    pass


class _GenClose(Exception):
    """A suspended generator is closed (its consumer is gone): unwinds the generator's frames, running finally blocks."""


class _CmExit(Exception):
    """The body of a 'with' on a generator-based context manager left by return/break/continue: travels through the
    generator's frames (running their finally blocks) back to the with statement, which re-raises the signal."""
    def __init__(self, signal):
        self.signal = signal


class _Replay(Exception):
    pass


BUILTIN_NAMES = {
    "isinstance", "issubclass", "len", "getattr", "hasattr", "setattr", "tuple", "list", "dict", "set", "staticmethod", "classmethod", "property",
    "str", "int", "float", "bool", "bytes", "min", "max", "any", "all", "sum", "sorted", "filter", "map",
    "callable", "dir", "print", "super", "Exception", "ValueError", "TypeError", "KeyError", "IndexError",
    "AssertionError", "NotImplementedError", "enumerate", "zip", "range", "iter", "next", "repr", "type",
    "object", "id", "abs", "round", "frozenset", "reversed", "BaseException", "AttributeError", "cast", "vars", "divmod", "format", "StopIteration", "RuntimeError", "OSError",
}


class Frame:
    def __init__(self, fi: Optional[FunctionInfo], module: Module, env: dict, parent: "Frame" = None, cls: ClassInfo = None):
        self.fi = fi
        self.module = module
        self.env = env
        self.parent = parent  # lexical parent (closures)
        self.cls = cls  # class in which the function is defined (for super())

    def lookup(self, name):
        f = self
        while f is not None:
            if name in f.env:
                return f.env[name]
            f = f.parent
        return None

    def owner_of(self, name):
        f = self
        while f is not None:
            if name in f.env:
                return f
            f = f.parent
        return None


class Interp:
    """One deterministic run under a decision prefix (see ``explore``)."""

    def __init__(self, program: Program, decisions, opts):
        self.p = program
        self.prefix = list(decisions)
        self.taken = []  # (choice, n)
        self.events: List[Event] = []
        self.ctx = ()
        self.opts = opts
        self.heap: Dict[tuple, Value] = {}
        self.loop_counter = 0
        self.depth = 0
        self.fn_stack: List[FunctionInfo] = []
        self.steps = 0

    # ----------------------------------------------------------------- choices
    def choose(self, n: int, tag=None) -> int:
        i = len(self.taken)
        c = self.prefix[i] if i < len(self.prefix) else 0
        self.taken.append((c, n))
        return c

    def emit(self, kind, node, **data):
        ev = Event(kind, node, data, self.ctx, self.fn_stack[-1] if self.fn_stack else None)
        ev.idx = len(self.events)
        self.events.append(ev)
        return ev

    class _Ctx:
        def __init__(self, interp, frame):
            self.i = interp
            self.frame = frame

        def __enter__(self):
            self.saved = self.i.ctx
            self.i.ctx = self.i.ctx + (self.frame,)

        def __exit__(self, *a):
            self.i.ctx = self.saved

    def context(self, *frame):
        return Interp._Ctx(self, tuple(frame))

    # ------------------------------------------------------------------- truth
    def truth(self, v, node=None):
        """Decide the truthiness of an abstract value; fork when unknown."""
        t = self.truth_of(v)
        if t is not None:
            return t
        if isinstance(v, Term) and v.op == "not":
            return not self.truth(v.args[0], node)
        memo = self.__dict__.setdefault("_assumed", {})
        if id(v) in memo:
            return memo[id(v)][1]
        # the complementary comparison of the same operands ('x is None' vs 'x is not None', '==' vs '!=', '<' vs '>=')
        # was decided earlier on this path: this one is its negation
        if isinstance(v, Term) and v.op == "cmp" and len(v.args) >= 3:
            opp = {"is": "is not", "is not": "is", "==": "!=", "!=": "==", "<": ">=", ">=": "<", ">": "<=", "<=": ">", "in": "not in", "not in": "in"}.get(v.args[0])
            if opp is not None:
                for (w, res_) in list(memo.values()):
                    if isinstance(w, Term) and w.op == "cmp" and len(w.args) >= 3 and w.args[0] == opp and w.args[1] is v.args[1] and (w.args[2] is v.args[2] or same_value(w.args[2], v.args[2]) is True):
                        memo[id(v)] = (v, not res_)
                        self.emit("assume", node, cond=v, truth=not res_, derived=True)
                        return not res_
        c = self.choose(2, "branch")
        res = c == 0
        memo[id(v)] = (v, res)
        self.emit("assume", node, cond=v, truth=res)
        self.learn_from(v, res)
        return res

    def truth_of(self, v):
        if isinstance(v, Const):
            return bool(v.v)
        if isinstance(v, Lst) and getattr(v, "is_gen", False):
            return True  # a generator object is truthy whatever it will yield
        if isinstance(v, (Tup, Lst)):
            return len(v.items) > 0
        if isinstance(v, Dct):
            return len(v.pairs) > 0
        if isinstance(v, (Obj, Cls, Fn, Mod)):
            if isinstance(v, Obj) and v.attrs.get("__falsy__") is not None:
                return False
            if isinstance(v, Obj) and v.attrs.get("__truth_unknown__") is not None:
                return None  # an opaque input that may be None / '' / 0 as well as anything else
            if isinstance(v, Obj) and v.cls is not None:
                # a class that defines __bool__ or __len__ decides its own truthiness (an empty BLOB is falsy)
                for dunder in ("__bool__", "__len__"):
                    m_ = v.cls.find_method(dunder)
                    if m_ is not None:
                        saved = self.opts.get("inline")
                        self.opts["inline"] = lambda fi, node, _s=saved: True if fi.cls is not None and fi.cls in v.cls.mro else (_s(fi, node) if _s else False)
                        n_ev = len(self.events)
                        try:
                            r_ = self.run_function(Fn(m_, v), [], {})
                        except (_Raise, Undecided):
                            r_ = None
                        finally:
                            del self.events[n_ev:]
                            if saved is None:
                                self.opts.pop("inline", None)
                            else:
                                self.opts["inline"] = saved
                        if isinstance(r_, Const) and isinstance(r_.v, (bool, int)):
                            return bool(r_.v)
                        return None
            return True
        if isinstance(v, Term):
            if v.op == "not":
                t = self.truth_of(v.args[0])
                return None if t is None else not t
            if v.op == "new":
                return True
        return None

    # -------------------------------------------------------------- statements
    def run_function(self, fn: Fn, args: List[Value], kwargs: Dict[str, Value], node=None) -> Value:
        fi = fn.fi
        if self.depth > self.opts.get("max_depth", 9):
            raise Undecided(f"inlining deeper than {self.opts.get('max_depth', 9)} at {fi.qualname}")
        env = {}
        a = fi.node.args
        pos = [x.arg for x in a.posonlyargs + a.args]
        argv = list(args)
        if fn.self_val is not None and fi.kind in ("method", "getter", "setter", "classmethod"):
            argv = [fn.self_val] + argv
        elif fi.kind == "classmethod" and fi.cls is not None:
            argv = [Cls(fi.cls)] + argv
        defaults = a.defaults
        for i, name in enumerate(pos):
            if i < len(argv):
                env[name] = argv[i]
            elif name in kwargs:
                env[name] = kwargs[name]
            else:
                di = i - (len(pos) - len(defaults))
                if di >= 0:
                    env[name] = self._default_value(fi, ("p", di), defaults[di])
                else:
                    env[name] = Term("param", name)
        if a.vararg:
            env[a.vararg.arg] = Tup(argv[len(pos):])
        elif len(argv) > len(pos):
            raise _Raise(Term("exc", "TypeError", "too many positional arguments"), node)
        for k, d in zip(a.kwonlyargs, a.kw_defaults):
            if k.arg in kwargs:
                env[k.arg] = kwargs[k.arg]
            elif d is not None:
                env[k.arg] = self._default_value(fi, ("k", k.arg), d)
            else:
                env[k.arg] = Term("param", k.arg)
        named = set(pos) | {k.arg for k in a.kwonlyargs}
        extra = [(k, v) for k, v in kwargs.items() if k not in named]
        if a.kwarg:
            env[a.kwarg.arg] = Dct([(Const(k), v) for k, v in extra])
        cls = fi.cls
        frame = Frame(fi, fi.module, env, parent=fn.closure, cls=cls)
        is_gen = getattr(fi, "_is_generator", None)
        if is_gen is None:
            from .model import walk_no_nested
            is_gen = fi._is_generator = any(isinstance(n, (ast.Yield, ast.YieldFrom)) for n in walk_no_nested(fi.node))
        if is_gen:
            frame.yields = []
            cmstack = self.__dict__.get("_cm_stack")
            is_cm = bool(cmstack) and cmstack[-1]["fi"] is fi and not cmstack[-1]["done"]
            if not is_cm and self.opts.get("lazy_generators", True):
                # calling a generator function runs nothing: the body runs when (and as far as) the result is consumed
                g = Gen(self, fn, frame, node)
                frame.gen = g
                return g
        memo_key = self._memo_key(fi, argv, kwargs)
        if memo_key not in (None, "opaque"):
            hit = self.__dict__.setdefault("_memo", {}).get(memo_key)
            if hit is not None:
                return hit
        self.depth += 1
        self.fn_stack.append(fi)
        try:
            with self.context("inline", fi, node):
                try:
                    self.exec_block(fi.node.body, frame)
                except _Return as r:
                    return self._memoised(fi, memo_key, argv, kwargs, self._gen_value(frame.yields) if is_gen else r.value)
            return self._memoised(fi, memo_key, argv, kwargs, self._gen_value(frame.yields) if is_gen else Const(None))
        finally:
            self.depth -= 1
            self.fn_stack.pop()

    def _memo_key(self, fi, argv, kwargs):
        """Functions under functools.lru_cache / cache return the result of the FIRST call whose arguments compared
        (and hashed) equal.  None = not memoised, or aliasing is unobservable for these arguments (strings, identity-
        compared objects); 'opaque' = arguments of unknown type: which earlier call answers is not known; otherwise a
        key under Python's own equality of the constant arguments (0.0 == -0.0, 1 == 1.0 == True)."""
        m = getattr(fi, "_memoised", None)
        if m is None:
            m = fi._memoised = any(d.split("(")[0].split(".")[-1] in ("lru_cache", "cache") for d in getattr(fi, "decorators", []))
        if not m:
            return None
        key = [fi.qualname]
        observable = False
        for v in list(argv) + [x for _, x in sorted(kwargs.items())]:
            if isinstance(v, Const):
                if isinstance(v.v, (str, bytes)) or v.v is None:
                    key.append(("c", type(v.v).__name__, v.v))
                else:
                    try:
                        hash(v.v)
                    except TypeError:
                        return None
                    key.append(("n", v.v))
                    observable = True
            elif isinstance(v, (Cls, Fn, Mod, Builtin, Foreign)) or (isinstance(v, Obj) and v.cls is not None and v.cls.find_method("__eq__") is None):
                key.append(("id", id(v)))
            elif isinstance(v, Term) and getattr(v, "pytype", None) == "str":
                return None
            else:
                return "opaque"
        return tuple(key) if observable else None

    def _memoised(self, fi, memo_key, argv, kwargs, result):
        if memo_key is None:
            return result
        if memo_key == "opaque":
            # the cache may answer with the result computed for an earlier, equal-but-different argument: a result that
            # is (or contains) the argument itself is not this call's argument any more
            ins = [v for v in list(argv) + list(kwargs.values()) if not isinstance(v, (Const, Cls, Fn, Mod, Builtin, Foreign))]
            if any(result is v or mentions(result, lambda t, v=v: t is v) for v in ins):
                return Term("memo", Const(fi.qualname))
            return result
        self.__dict__.setdefault("_memo", {})[memo_key] = result
        return result

    def exec_block(self, body, frame):
        for st in body:
            self.exec_stmt(st, frame)

    def exec_stmt(self, st, frame: Frame):
        self.steps += 1
        if self.steps > self.opts.get("max_steps", 20000):
            raise Undecided("step budget exhausted")
        m = getattr(self, "st_" + type(st).__name__, None)
        if m is None:
            raise Undecided(f"unsupported statement {type(st).__name__} at line {st.lineno}")
        self.cur_stmt = st
        return m(st, frame)

    def st_Expr(self, st, frame):
        self.eval(st.value, frame)

    def st_Pass(self, st, frame):
        pass

    def st_Import(self, st, frame):
        for a in st.names:
            nm = a.asname or a.name.split(".")[0]
            tgt = a.name if a.asname else a.name.split(".")[0]
            frame.env[nm] = Mod(self.p.modules[tgt]) if tgt in self.p.modules else Foreign(tgt)

    def st_ImportFrom(self, st, frame):
        target = self.p._abs_module(frame.module, st.module, st.level)
        for a in st.names:
            ent = self.p.lookup_in_module(target, a.name) if target in self.p.modules else ("foreign", f"{target}.{a.name}")
            frame.env[a.asname or a.name] = self.entity_value(ent, a.name)

    def st_Global(self, st, frame):
        pass

    def st_Nonlocal(self, st, frame):
        pass

    def st_FunctionDef(self, st, frame):
        fi = None
        if frame.fi is not None:
            # the function this very statement defines (a name may be defined once per branch of an if)
            fi = getattr(frame.fi, "nested_by_node", {}).get(id(st)) or frame.fi.nested.get(st.name)
        if fi is None:
            raise Undecided(f"nested def {st.name} not in model")
        frame.env[st.name] = Fn(fi, None, closure=frame)

    st_AsyncFunctionDef = st_FunctionDef

    def st_Assign(self, st, frame):
        v = self.eval(st.value, frame)
        for t in st.targets:
            self.assign(t, v, frame, st)

    def st_AnnAssign(self, st, frame):
        if st.value is not None:
            v = self.eval(st.value, frame)
            self.assign(st.target, v, frame, st)

    def st_AugAssign(self, st, frame):
        cur = self.eval(_load(st.target), frame)
        rhs = self.eval(st.value, frame)
        v = self.binop(type(st.op).__name__, cur, rhs, st)
        self.assign(st.target, v, frame, st)

    def st_Delete(self, st, frame):
        for t in st.targets:
            if isinstance(t, ast.Subscript) and isinstance(t.slice, ast.Slice):
                base = self.eval(t.value, frame)
                if isinstance(base, Lst) and not getattr(base, "is_gen", False) and all(x is None for x in (t.slice.lower, t.slice.upper, t.slice.step)):
                    del base.items[:]
                    self.emit("del", st, base=base, key=Const(None))
                    continue
                raise Undecided(f"del of a slice other than xs[:] (line {st.lineno})")
            if isinstance(t, ast.Subscript):
                base = self.eval(t.value, frame)
                key = self.eval(t.slice, frame)
                if isinstance(base, Dct):
                    if base.get(key) is None and self.opts.get("strict_keys"):
                        raise _Raise(Term("exc", "KeyError"), st)
                    base.delete(key)
                elif isinstance(base, Lst) and not getattr(base, "is_gen", False):
                    if isinstance(key, Const) and isinstance(key.v, int) and not isinstance(key.v, bool):
                        if -len(base.items) <= key.v < len(base.items):
                            del base.items[key.v]
                        else:
                            self.emit("raise", st, value=Term("exc", "IndexError"))
                            raise _Raise(Term("exc", "IndexError"), st)
                    elif isinstance(t.slice, ast.Slice) and all(x is None for x in (t.slice.lower, t.slice.upper, t.slice.step)):
                        del base.items[:]
                    else:
                        raise Undecided(f"del on a list with an index that is not a constant (line {st.lineno})")
                self.emit("del", st, base=base, key=key)
            elif isinstance(t, ast.Name):
                frame.env.pop(t.id, None)
            else:
                self.emit("del", st, base=self.eval(t.value, frame), key=Const(getattr(t, "attr", None)))

    def st_Return(self, st, frame):
        v = self.eval(st.value, frame) if st.value is not None else Const(None)
        self.emit("return", st, value=v)
        raise _Return(v)

    def st_Raise(self, st, frame):
        v = self.eval(st.exc, frame) if st.exc is not None else Term("exc", "reraise")
        self.emit("raise", st, value=v)
        raise _Raise(v, st)

    def st_Assert(self, st, frame):
        v = self.eval(st.test, frame)
        if self.opts.get("assert_forks", False):
            if not self.truth(v, st):
                ev = self.emit("raise", st, value=Term("exc", "AssertionError"))
                raise _Raise(Term("exc", "AssertionError"), st)
        else:
            self.emit("assert", st, cond=v)

    def st_Break(self, st, frame):
        raise _Break()

    def st_Continue(self, st, frame):
        raise _Continue()

    def st_If(self, st, frame):
        c = self.eval(st.test, frame)
        if self.truth_cond(c, st.test, frame):
            self.exec_block(st.body, frame)
        else:
            self.exec_block(st.orelse, frame)

    def truth_cond(self, c, node, frame):
        return self.truth(c, node)

    def st_While(self, st, frame):
        self.loop_counter += 1
        lid = (self.loop_counter, st.lineno)
        it = 0
        counted = 0  # iterations that involved an undecided condition: only those are bounded by max_while
        maxit = self.opts.get("max_while", 2)
        while True:
            with self.context("loop", lid, it, st):
                n_dec = len(self.taken)
                c = self.eval(st.test, frame)
                if not self.truth(c, st.test):
                    break
                # 'while True:' style loops over a table (exit decided inside the body) get a wider default bound than
                # loops whose own condition is undecided; an explicit max_while always rules
                eff = maxit if ("max_while" in self.opts or not isinstance(c, Const)) else max(maxit, 8)
                if counted >= eff or it > self.opts.get("max_live_for", 500):
                    self.emit("loop-bound", st, loop=lid)
                    raise _Truncate()
                self.emit("loop-iter", st, loop=lid, it=it)
                try:
                    self.exec_block(st.body, frame)
                except _Break:
                    self.emit("loop-exit", st, loop=lid, how="break")
                    return
                except _Continue:
                    pass
                self.emit("loop-back", st, loop=lid, it=it)
                if len(self.taken) != n_dec or not isinstance(c, Const):
                    counted += 1  # a fully decided iteration over concrete data is simply executed (like a for loop)
            it += 1
        self.emit("loop-exit", st, loop=lid, how="cond")
        self.exec_block(st.orelse, frame)

    def _for_gen(self, st, frame, g, lid):
        self.emit("loop-enter", st, loop=lid, iterable=g, n=-1, symbolic=False)
        i = -1
        while True:
            r = g.pull()
            if r is None:
                break
            i += 1
            if i > self.opts.get("max_live_for", 500):
                raise Undecided(f"generator does not end (line {st.lineno})")
            with self.context("loop", lid, i, st):
                self.emit("loop-iter", st, loop=lid, it=i)
                self.assign(st.target, r[0], frame, st, loop_target=True)
                try:
                    self.exec_block(st.body, frame)
                except _Break:
                    self.emit("loop-exit", st, loop=lid, how="break")
                    return
                except _Continue:
                    continue
        self.emit("loop-exit", st, loop=lid, how="exhausted")
        self.exec_block(st.orelse, frame)

    def st_For(self, st, frame):
        itv = self.eval(st.iter, frame)
        self.loop_counter += 1
        lid = (self.loop_counter, st.lineno)
        if isinstance(itv, Gen):
            return self._for_gen(st, frame, itv, lid)
        items = self.concrete_iter(itv)
        if items is None and self.opts.get("concrete_only"):
            raise Undecided(f"a loop iterates over a value that constant evaluation does not know ({show(itv)[:70]}, line {st.lineno})")
        if items is None:
            n = self.choose(self.opts.get("max_for", 2) + 1, "for")
            items = [self.sym_elem(itv, i) for i in range(n)]
            symbolic = True
        else:
            symbolic = False
        self.emit("loop-enter", st, loop=lid, iterable=itv, n=len(items), symbolic=symbolic)
        # a list is walked by index over its CURRENT content (Python semantics): removing an element at or before the
        # position of a loop in progress makes the loop skip the next one, appending extends the walk
        live = itv if (isinstance(itv, Lst) and not symbolic and not getattr(itv, "is_gen", False)) else None
        i = -1
        while True:
            i += 1
            src_items = live.items if live is not None else items
            if i >= len(src_items):
                break
            if i > self.opts.get("max_live_for", 500):
                raise Undecided(f"list grows while it is iterated (line {st.lineno})")
            item = src_items[i]
            with self.context("loop", lid, i, st):
                self.emit("loop-iter", st, loop=lid, it=i)
                self.assign(st.target, item, frame, st, loop_target=True)
                try:
                    self.exec_block(st.body, frame)
                except _Break:
                    self.emit("loop-exit", st, loop=lid, how="break")
                    return
                except _Continue:
                    continue
        self.emit("loop-exit", st, loop=lid, how="exhausted")
        self.exec_block(st.orelse, frame)

    st_AsyncFor = st_For

    def st_Match(self, st, frame):
        """Structural pattern matching: cases are tried in order; literal/value patterns compare with ==, singletons with
        'is', class patterns test isinstance and then their keyword sub-patterns on attributes, sequence patterns need a
        sequence of known length; captures bind only when the whole case (and its guard) is taken."""
        subj = self.eval(st.subject, frame)
        for case in st.cases:
            binds = {}
            if not self.match_pattern(case.pattern, subj, binds, st, frame):
                continue
            saved = dict(frame.env)
            frame.env.update(binds)
            if case.guard is not None and not self.truth(self.eval(case.guard, frame), case.guard):
                frame.env.clear()
                frame.env.update(saved)
                continue
            self.exec_block(case.body, frame)
            return

    def match_pattern(self, pat, v, binds, node, frame) -> bool:
        if isinstance(pat, ast.MatchValue):
            return bool(self.truth(self.compare("Eq", v, self.eval(pat.value, frame), pat), pat))
        if isinstance(pat, ast.MatchSingleton):
            return bool(self.truth(self.compare("Is", v, Const(pat.value), pat), pat))
        if isinstance(pat, ast.MatchAs):
            if pat.pattern is not None and not self.match_pattern(pat.pattern, v, binds, node, frame):
                return False
            if pat.name:
                binds[pat.name] = v
            return True
        if isinstance(pat, ast.MatchOr):
            for alt in pat.patterns:
                b2 = {}
                if self.match_pattern(alt, v, b2, node, frame):
                    binds.update(b2)
                    return True
            return False
        if isinstance(pat, ast.MatchClass):
            cls = self.eval(pat.cls, frame)
            if not self.truth(self.call_builtin("isinstance", [v, cls], {}, pat, frame), pat):
                return False
            if pat.patterns:
                margs = None
                if isinstance(cls, Cls):
                    ca = cls.ci.find_class_attr("__match_args__")
                    if ca is not None:
                        cv = self.p.const_value(ca[1].module, ca[0], ca[1])
                        if isinstance(cv, (tuple, list)):
                            margs = list(cv)
                    if margs is None and getattr(cls.ci, "dataclass_fields", None):
                        margs = list(cls.ci.dataclass_fields)
                    if margs is None and getattr(cls.ci, "namedtuple_fields", None) is not None:
                        margs = [n for n, _ in cls.ci.namedtuple_fields]
                if isinstance(cls, Builtin) and cls.name in ("str", "int", "float", "bytes", "bool") and len(pat.patterns) == 1:
                    if not self.match_pattern(pat.patterns[0], v, binds, node, frame):
                        return False
                elif margs is None or len(pat.patterns) > len(margs):
                    raise Undecided(f"positional class pattern without known __match_args__ line {pat.lineno}")
                else:
                    for sub, name in zip(pat.patterns, margs):
                        if not self.match_pattern(sub, self.get_attr(v, name, pat, frame), binds, node, frame):
                            return False
            for name, sub in zip(pat.kwd_attrs, pat.kwd_patterns):
                if isinstance(v, NTup):
                    if v.field(name) is None:
                        return False
                elif not self.truth(self.call_builtin("hasattr", [v, Const(name)], {}, pat, frame), pat):
                    return False
                if not self.match_pattern(sub, self.get_attr(v, name, pat, frame), binds, node, frame):
                    return False
            return True
        if isinstance(pat, ast.MatchSequence):
            if isinstance(v, Const) and isinstance(v.v, (str, bytes)):
                return False
            items = self.concrete_iter(v) if isinstance(v, (Tup, Lst)) else None
            if items is None and isinstance(v, Term) and v.op == "call" and isinstance(v.args[0], Term) and v.args[0].op == "attr" and v.args[0].args[1] == "groups":
                rx = getattr(v.args[0].args[0], "regex", None)
                if rx is not None:
                    # the groups of a symbolic match: a tuple of known length
                    import re as _re
                    try:
                        items = [Term("unpack", v, i) for i in range(_re.compile(rx[0]).groups)]
                    except _re.error:
                        items = None
            if items is None and (isinstance(v, (Const, Obj, Cls, Fn, Dct, Mod)) or (isinstance(v, Term) and v.pytype in ("str", "int", "float", "bool", "bytes", "number"))):
                return False
            if items is None:
                raise Undecided(f"sequence pattern on a value of unknown shape line {pat.lineno}")
            stars = [i for i, s in enumerate(pat.patterns) if isinstance(s, ast.MatchStar)]
            if not stars:
                if len(items) != len(pat.patterns):
                    return False
                return all(self.match_pattern(s, x, binds, node, frame) for s, x in zip(pat.patterns, items))
            k = stars[0]
            after = len(pat.patterns) - k - 1
            if len(items) < len(pat.patterns) - 1:
                return False
            for s, x in zip(pat.patterns[:k], items[:k]):
                if not self.match_pattern(s, x, binds, node, frame):
                    return False
            for s, x in zip(pat.patterns[k + 1:], items[len(items) - after:] if after else []):
                if not self.match_pattern(s, x, binds, node, frame):
                    return False
            if pat.patterns[k].name:
                binds[pat.patterns[k].name] = Lst(items[k:len(items) - after])
            return True
        if isinstance(pat, ast.MatchMapping):
            if not isinstance(v, Dct):
                if isinstance(v, (Const, Tup, Lst, Obj)):
                    return False
                raise Undecided(f"mapping pattern on a value of unknown shape line {pat.lineno}")
            for kx, sub in zip(pat.keys, pat.patterns):
                got = v.get(self.eval(kx, frame))
                if got is None or not self.match_pattern(sub, got, binds, node, frame):
                    return False
            if pat.rest:
                raise Undecided("mapping pattern with **rest")
            return True
        raise Undecided(f"unsupported pattern {type(pat).__name__}")

    def concrete_iter(self, v):
        if isinstance(v, Const) and (v.v is None or isinstance(v.v, (bool, int, float))):
            node = getattr(self, "cur_stmt", None)
            self.emit("raise", node, value=Term("exc", "TypeError"))
            raise _Raise(Term("exc", "TypeError"), node)
        if isinstance(v, Lst) and getattr(v, "is_gen", False):
            # a generator (expression or function) can be consumed once; a second traversal yields nothing
            if getattr(v, "consumed", False):
                return []
            v.consumed = True
            return list(v.items)
        if isinstance(v, (Tup, Lst)):
            return list(v.items)
        if isinstance(v, Obj) and isinstance(v.attrs.get("__iter__"), (Lst, Tup)):
            return list(v.attrs["__iter__"].items)
        if isinstance(v, Dct):
            return [k for k, _ in v.pairs]
        if isinstance(v, Term) and v.op == "view":
            d, which = v.args
            if isinstance(d, Dct):
                if which == "dict":
                    return [k for k, _ in d.pairs]
                if which == "items":
                    return [Tup([k, x]) for k, x in d.pairs]
                if which == "keys":
                    return [k for k, _ in d.pairs]
                return [x for _, x in d.pairs]
        return None

    def sym_elem(self, itv, i):
        if isinstance(itv, Term) and itv.op == "call":
            callee = itv.args[0]
            if isinstance(callee, Term) and callee.op == "attr" and not itv.args[1] and not itv.args[2]:
                base = callee.args[0]
                hint = self.value_hint_of_container(base)
                if callee.args[1] == "items":
                    return Tup([Term("key", base, i), Term("val", base, i, hint=hint)])
                if callee.args[1] == "values":
                    return Term("val", base, i, hint=hint)
                if callee.args[1] == "keys":
                    return Term("key", base, i)
        hint = self.elem_hint_of_container(itv)
        return Term("elem", itv, i, hint=hint)

    def value_hint_of_container(self, base):
        f = self.opts.get("container_hints")
        if f:
            return f(base, "val")
        return None

    def elem_hint_of_container(self, base):
        f = self.opts.get("container_hints")
        if f:
            return f(base, "elem")
        return None

    def st_With(self, st, frame):
        if self._with_modelled(st, st.items, frame):
            return
        frames = []
        for item in st.items:
            cm = self.eval(item.context_expr, frame)
            self.emit("with-enter", st, cm=cm, is_async=isinstance(st, ast.AsyncWith))
            if item.optional_vars is not None:
                self.assign(item.optional_vars, Term("enter", cm), frame, st)
            frames.append(cm)
        try:
            with self.context("with", tuple(show(c) for c in frames), st):
                self.exec_block(st.body, frame)
        finally:
            for cm in reversed(frames):
                self.emit("with-exit", st, cm=cm)

    st_AsyncWith = st_With

    def _is_cm_function(self, v):
        return isinstance(v, Fn) and any(d.split("(")[0].split(".")[-1] in ("contextmanager", "asynccontextmanager") for d in getattr(v.fi, "decorators", []))

    def _with_modelled(self, st, items, frame) -> bool:
        """'with' on context managers whose code is part of the program: a function under @contextmanager (the with body
        runs at its yield, so an exception of the body meets the generator's own try/except/finally), or an object of a
        repository class with __enter__/__exit__ (called; a truthy __exit__ result suppresses the exception).  Returns
        False for anything else (locks, files, foreign objects), which keeps the opaque treatment."""
        if not items:
            self.exec_block(st.body, frame)
            return True
        item, rest = items[0], items[1:]
        ce = item.context_expr
        callee = None
        if isinstance(ce, ast.Call):
            try:
                callee = self.eval(ce.func, frame)
            except Undecided:
                callee = None
        if callee is not None and self._is_cm_function(callee):
            args, kwargs, starkw = [], {}, []
            for a in ce.args:
                args.append(self.eval(a, frame))
            for k in ce.keywords:
                if k.arg is None:
                    raise Undecided("**kwargs in a context manager call")
                kwargs[k.arg] = self.eval(k.value, frame)
            rec = {"fi": callee.fi, "done": False, "item": item, "rest": rest, "st": st, "frame": frame}
            stack = self.__dict__.setdefault("_cm_stack", [])
            stack.append(rec)
            self.emit("with-enter", st, cm=Term("call", callee, tuple(args), tuple(kwargs.items())), is_async=isinstance(st, ast.AsyncWith))
            try:
                self.run_function(callee, args, kwargs, st)
            except _CmExit as x:
                if x.signal is not None and rec.get("signal_owner"):
                    raise x.signal
                raise
            finally:
                stack.pop()
                self.emit("with-exit", st, cm=Term("call", callee, tuple(args), tuple(kwargs.items())))
            if not rec["done"]:
                raise Undecided(f"the context manager {callee.fi.name} did not yield")
            return True
        if isinstance(callee, Foreign) and callee.dotted in ("contextlib.suppress", "suppress") and isinstance(ce, ast.Call) and not ce.keywords:
            # contextlib.suppress(E1, ...): an exception of one of these kinds raised by the body ends the block quietly
            names = [ast.unparse(a_).split(".")[-1] for a_ in ce.args]
            self.emit("with-enter", st, cm=Term("call", callee, tuple(Const(n_) for n_ in names), ()), is_async=False)
            try:
                if rest:
                    self._with_modelled(st, rest, frame)
                else:
                    self.exec_block(st.body, frame)
            except _Raise as r:
                kind = exc_kind(r.value)
                if any(n_ in ("Exception", "BaseException") for n_ in names):
                    return True
                if kind is not None and any(n_ == kind or n_ in EXC_PARENTS.get(kind, ()) for n_ in names):
                    return True
                if kind is None and names and self.choose(2, "suppress") == 0:
                    return True
                raise
            finally:
                self.emit("with-exit", st, cm=Term("call", callee, tuple(Const(n_) for n_ in names), ()))
            return True
        # class-based: decided only when every item of this with statement is an object of a repository class
        try:
            cm = self.eval(ce, frame)
        except Undecided:
            return False
        if not (isinstance(cm, Obj) and cm.cls is not None and cm.cls.find_method("__enter__") is not None and cm.cls.find_method("__exit__") is not None):
            if items is st.items:
                return False
            # an opaque manager after a modelled one: keep it opaque, continue with the rest
            self.emit("with-enter", st, cm=cm, is_async=isinstance(st, ast.AsyncWith))
            if item.optional_vars is not None:
                self.assign(item.optional_vars, Term("enter", cm), frame, st)
            try:
                with self.context("with", (show(cm),), st):
                    self._with_modelled(st, rest, frame) if rest else self.exec_block(st.body, frame)
            finally:
                self.emit("with-exit", st, cm=cm)
            return True
        saved = self.opts.get("inline")
        self.opts["inline"] = lambda fi, node, _s=saved: True if (fi.cls is not None and fi.cls in cm.cls.mro and fi.name in ("__enter__", "__exit__")) else (_s(fi, node) if _s else False)
        try:
            entered = self.run_function(Fn(cm.cls.find_method("__enter__"), cm), [], {}, st)
            if item.optional_vars is not None:
                self.assign(item.optional_vars, entered, frame, st)
            ex = Fn(cm.cls.find_method("__exit__"), cm)
            try:
                if rest:
                    self._with_modelled(st, rest, frame)
                else:
                    self.exec_block(st.body, frame)
            except _Raise as r:
                res = self.run_function(ex, [Obj(None, label="<exception type>"), r.value if isinstance(r.value, (Obj, Term)) else Obj(None, label="<exception>"), Obj(None, label="<traceback>")], {}, st)
                if self.truth(res, st):
                    return True
                raise
            except (_Return, _Break, _Continue, _CmExit):
                self.run_function(ex, [Const(None), Const(None), Const(None)], {}, st)
                raise
            else:
                self.run_function(ex, [Const(None), Const(None), Const(None)], {}, st)
        finally:
            if saved is None:
                self.opts.pop("inline", None)
            else:
                self.opts["inline"] = saved
        return True

    def _cm_yield(self, rec, value):
        """The yield of a generator-based context manager: bind the 'as' target, run the rest of the with statement."""
        rec["done"] = True
        item, rest, st, frame = rec["item"], rec["rest"], rec["st"], rec["frame"]
        if item.optional_vars is not None:
            self.assign(item.optional_vars, value, frame, st)
        try:
            if rest:
                self._with_modelled(st, rest, frame)
            else:
                self.exec_block(st.body, frame)
        except (_Return, _Break, _Continue) as sig:
            rec["signal_owner"] = True
            raise _CmExit(sig)

    def st_Try(self, st, frame):
        try:
            self._try_core(st, frame)
        except (_Return, _Raise, _Break, _Continue, _CmExit, _GenClose) as sig:
            if st.finalbody:
                with self.context("finally", st):
                    self.exec_block(st.finalbody, frame)
            raise
        else:
            if st.finalbody:
                with self.context("finally", st):
                    self.exec_block(st.finalbody, frame)

    def _try_core(self, st, frame):
        try:
            with self.context("try", st):
                self.exec_block(st.body, frame)
        except _Raise as r:
            h = self.match_handler(st, r, frame)
            if h is None:
                raise
            self.emit("except", h, exc=r.value)
            if h.name:
                frame.env[h.name] = r.value
            with self.context("handler", h):
                try:
                    self.exec_block(h.body, frame)
                except _Raise as r2:
                    if isinstance(r2.value, Term) and r2.value.op == "exc" and r2.value.args[0] == "reraise":
                        raise _Raise(r.value, r2.node)
                    raise
        else:
            self.exec_block(st.orelse, frame)

    def match_handler(self, st, r: _Raise, frame):
        kind = exc_kind(r.value)
        for h in st.handlers:
            if h.type is None:
                return h
            names = [ast.unparse(x) for x in (h.type.elts if isinstance(h.type, ast.Tuple) else [h.type])]
            for nm in names:
                base = nm.split(".")[-1]
                if base in ("Exception", "BaseException"):
                    return h
                if kind is not None and (base == kind or base in EXC_PARENTS.get(kind, ())):
                    return h
                if kind is None:
                    # unknown exception kind against a specific handler: fork
                    if self.choose(2, "handler") == 0:
                        return h
        return None

    # ------------------------------------------------------------- assignment
    def assign(self, target, v, frame: Frame, st, loop_target=False):
        if isinstance(target, ast.Name):
            owner = frame
            if frame.fi is not None and _declared_nonlocal(frame.fi.node, target.id):
                owner = frame.parent.owner_of(target.id) or frame if frame.parent else frame
            owner.env[target.id] = v
            return
        if isinstance(target, (ast.Tuple, ast.List)) and any(isinstance(t_, ast.Starred) for t_ in target.elts):
            stars = [i for i, t_ in enumerate(target.elts) if isinstance(t_, ast.Starred)]
            seq = None
            if isinstance(v, (Tup, Lst)):
                seq = list(v.items)
            elif isinstance(v, Term) and v.op == "call" and isinstance(v.args[0], Term) and v.args[0].op == "attr" and v.args[0].args[1] == "groups":
                rx = getattr(v.args[0].args[0], "regex", None)
                if rx is not None:
                    import re as _re
                    try:
                        seq = [Term("unpack", v, i) for i in range(_re.compile(rx[0]).groups)]
                    except _re.error:
                        seq = None
            if len(stars) != 1 or seq is None or len(seq) < len(target.elts) - 1:
                raise Undecided(f"starred unpacking of a sequence of unknown length line {st.lineno}")
            k = stars[0]
            after = len(target.elts) - k - 1
            for t_, x in zip(target.elts[:k], seq[:k]):
                self.assign(t_, x, frame, st)
            self.assign(target.elts[k].value, Lst(seq[k:len(seq) - after]), frame, st)
            for t_, x in zip(target.elts[k + 1:], seq[len(seq) - after:]):
                self.assign(t_, x, frame, st)
            return
        if isinstance(target, (ast.Tuple, ast.List)):
            items = None
            if isinstance(v, (Tup, Lst)):
                items = v.items
                if len(items) != len(target.elts):
                    self.emit("raise", st, value=Term("exc", "ValueError", "unpack arity"))
                    raise _Raise(Term("exc", "ValueError", "unpack arity"), st)
            elif isinstance(v, Const) and isinstance(v.v, (str, bytes)):
                if len(v.v) != len(target.elts):
                    x = Term("exc", "ValueError", f"cannot unpack {v.v!r} into {len(target.elts)} names")
                    self.emit("raise", st, value=x)
                    raise _Raise(x, st)
                items = [Const(c) for c in v.v]
            elif isinstance(v, (Const, Obj, Cls)):
                x = Term("exc", "TypeError", f"cannot unpack non-iterable {show(v)}")
                self.emit("raise", st, value=x)
                raise _Raise(x, st)
            else:
                self.emit("unpack", st, value=v, arity=len(target.elts), loop_target=loop_target)
                items = [Term("unpack", v, i) for i in range(len(target.elts))]
            for t, x in zip(target.elts, items):
                self.assign(t, x, frame, st)
            return
        if isinstance(target, ast.Attribute):
            base = self.eval(target.value, frame)
            self.store_attr(base, target.attr, v, st, frame)
            return
        if isinstance(target, ast.Subscript) and isinstance(target.slice, ast.Slice):
            base = self.eval(target.value, frame)
            sl = target.slice
            items = self.concrete_iter(v)
            if isinstance(base, Lst) and sl.lower is None and sl.upper is None and sl.step is None and items is not None:
                base.items[:] = items  # lst[:] = ... replaces the contents of the same list object
                self.emit("mutate", st, base=base, how="slice-assign", value=v)
                return
            raise Undecided(f"unsupported slice assignment line {st.lineno}")
        if isinstance(target, ast.Subscript):
            base = self.eval(target.value, frame)
            key = self.eval(target.slice, frame)
            if isinstance(base, Term) and base.op == "view" and base.args[1] == "dict" and getattr(base.args[0], "owner", None) is not None:
                self.call_method_model(base, "__setitem__", [key, v], {}, st)
                return
            if isinstance(base, Dct):
                base.set(key, v)
            elif isinstance(base, Lst) and isinstance(key, Const) and isinstance(key.v, int) and -len(base.items) <= key.v < len(base.items):
                base.items[key.v] = v
            self.emit("store", st, target=Term("sub", base, key), value=v, base=base, key=key)
            return
        raise Undecided(f"unsupported assignment target {type(target).__name__} line {st.lineno}")

    def store_attr(self, base, attr, v, st, frame):
        # property setter?
        ci = class_of(base)
        if ci is not None:
            setter = ci.find_setter(attr)
            if setter is not None:
                pol = self.opts.get("inline", lambda fi, node: False)
                self.emit("store", st, target=Term("attr", base, attr), value=v, base=base, attr=attr, setter=setter)
                if pol(setter, st) or self.is_private_helper(setter):
                    self.run_function(Fn(setter, base), [v], {}, st)
                elif not isinstance(base, Obj):
                    self.invalidate_attrs(base, modset(self.p, setter))
                return
        if isinstance(base, Obj):
            base.attrs[attr] = v
        elif isinstance(base, Cls):
            self.heap[("cls:" + base.ci.qualname, attr)] = v
        else:
            self.__dict__.setdefault("_attr_cache", {}).pop((show(base), attr), None)
            self.heap[(show(base), attr)] = v
        self.emit("store", st, target=Term("attr", base, attr), value=v, base=base, attr=attr, setter=None)

    # ------------------------------------------------------------ expressions
    def _default_value(self, fi, key, expr):
        """A parameter default is evaluated once, when the function is defined: every call that omits the argument gets
        the same object (a mutable default is shared between calls - and between the instances constructed with it)."""
        table = self.__dict__.setdefault("_defaults", {})
        k = (fi.qualname, key)
        if k not in table:
            table[k] = self.eval_in_module(fi.module, expr)
        return table[k]

    def eval_in_module(self, mod: Module, expr) -> Value:
        return self.eval(expr, Frame(None, mod, {}))

    def eval(self, e, frame: Frame) -> Value:
        m = getattr(self, "ex_" + type(e).__name__, None)
        if m is None:
            raise Undecided(f"unsupported expression {type(e).__name__} at line {getattr(e, 'lineno', '?')}")
        return m(e, frame)

    def ex_Constant(self, e, frame):
        return Const(e.value)

    def ex_Name(self, e, frame):
        v = frame.lookup(e.id)
        if v is not None:
            return v
        # class-body names do not leak into methods; go to module namespace
        ent = self.p.lookup_in_module(frame.module.name, e.id)
        if ent is not None:
            return self.entity_value(ent, e.id)
        if e.id in BUILTIN_NAMES:
            return Builtin(e.id)
        if e.id == "NotImplemented":
            return Const(NotImplemented)
        if e.id == "Ellipsis":
            return Const(Ellipsis)
        if e.id == "__name__":
            return Const(frame.module.name)
        raise Undecided(f"unresolved name {e.id} in {frame.module.name} line {e.lineno}")

    def entity_value(self, ent, name) -> Value:
        if ent is None:
            raise Undecided(f"unresolved import {name}")
        k = ent[0]
        if k == "class":
            return Cls(ent[1])
        if k == "func":
            return Fn(ent[1])
        if k == "module":
            return Mod(ent[1])
        if k == "foreign":
            return Foreign(ent[1])
        if k == "assign":
            expr, mod = ent[1], ent[2]
            cv = self.p.const_value(mod, expr)
            if cv is not UNKNOWN:
                return to_value(cv)
            if isinstance(expr, ast.Call):
                if ast.unparse(expr.func) == "re.compile" and len(expr.args) == 1 and isinstance(expr.args[0], ast.Constant) and isinstance(expr.args[0].value, str) and not expr.keywords:
                    return Obj(None, {"pattern": Const(expr.args[0].value)}, label=f"re.Pattern({expr.args[0].value!r})")
                if (isinstance(expr.func, ast.Name) and expr.func.id in ("tuple", "list", "dict", "frozenset", "set", "sorted", "object", "itemgetter", "attrgetter")) or ast.unparse(expr.func) in ("operator.itemgetter", "operator.attrgetter"):
                    # a module-level table built from literals (e.g. a tuple of precompiled patterns): evaluated once
                    gc = self.__dict__.setdefault("_globals", {})
                    key = (mod.name, name)
                    if key not in gc:
                        n_ev = len(self.events)
                        try:
                            gc[key] = self.eval_in_module(mod, expr)
                        except Undecided:
                            gc[key] = Term("global", f"{mod.name}.{name}")
                        del self.events[n_ev:]
                    return gc[key]
                hint = self.p.resolve_class(mod, expr.func)
                if hint is None or getattr(hint, "namedtuple_fields", None) is not None:
                    # any other module-level call (partial(...), methodcaller(...), chain(...), a compiled table ...) is
                    # evaluated once, like the interpreter of the program would at import time
                    gc = self.__dict__.setdefault("_globals", {})
                    key = (mod.name, name)
                    if key not in gc:
                        n_ev = len(self.events)
                        try:
                            gc[key] = self.eval_in_module(mod, expr)
                        except Undecided:
                            gc[key] = Term("global", f"{mod.name}.{name}")
                        del self.events[n_ev:]
                    return gc[key]
                return Term("global", f"{mod.name}.{name}", hint=hint)
            # module-level mutable objects (caches, registries) are one object per interpreter run
            gc = self.__dict__.setdefault("_globals", {})
            key = (mod.name, name)
            if key in gc:
                return gc[key]
            try:
                v = self.eval_in_module(mod, expr)
            except Undecided:
                v = Term("global", f"{mod.name}.{name}")
            gc[key] = v
            return v
        raise Undecided(f"entity {ent}")

    def ex_Attribute(self, e, frame):
        base = self.eval(e.value, frame)
        return self.get_attr(base, e.attr, e, frame)

    def get_attr(self, base, attr, node, frame) -> Value:
        if isinstance(base, NTup):
            f_ = base.field(attr)
            if f_ is not None:
                return f_
            m_ = base.ci.find_method(attr)
            if m_ is not None:
                return Fn(m_, base)
            if attr == "_fields":
                return Tup([Const(n) for n in base.names])
            x = Term("exc", "AttributeError", attr)
            self.emit("raise", node, value=x)
            raise _Raise(x, node)
        if isinstance(base, Mod):
            ent = self.p.lookup_in_module(base.m.name, attr)
            if ent is None:
                raise Undecided(f"{base.m.name}.{attr} not found")
            return self.entity_value(ent, attr)
        if isinstance(base, Foreign):
            return Foreign(base.dotted + "." + attr)
        if isinstance(base, Term) and base.op == "prop" and attr in ("fget", "fset"):
            pf = base.args[0].ci.find_getter(base.args[1]) if attr == "fget" else base.args[0].ci.find_setter(base.args[1])
            if pf is None:
                raise Undecided(f"property {base.args[1]} has no {attr}")
            return Fn(pf, None)
        if isinstance(base, Cls):
            ci = base.ci
            self._ensure_init_subclass(ci)
            if attr == "__name__":
                return Const(ci.name)
            if attr == "__class__":
                return Builtin("type")
            if attr == "__dict__":
                return Term("view", self.class_dict(ci), "dict")
            if attr == "__mro__":
                return Tup([Cls(c) for c in ci.mro] + [Builtin("object")])
            if attr == "__bases__":
                return Tup([Cls(c) for c in ci.bases] + ([Builtin("object")] if not ci.bases else []))
            for c in ci.mro:
                hv = self.heap.get(("cls:" + c.qualname, attr))
                if hv is not None:
                    return hv
            m = ci.find_method(attr)
            if m is not None:
                return Fn(m, base if m.kind == "classmethod" else None)
            if ci.find_getter(attr) is not None:
                return Term("prop", base, attr)  # the property object: only .fget / .fset are understood
            ca = ci.find_class_attr(attr)
            if ca is not None:
                cv = self.p.const_value(ca[1].module, ca[0], ca[1])
                if cv is not UNKNOWN:
                    return to_value(cv)
                key = ("cls:" + ci.qualname, attr)
                if key in self.heap:
                    return self.heap[key]
                shared = self.class_level_object(ca[1], attr, ca[0])
                if shared is not None:
                    return shared
                return Term("attr", base, attr)
            return Term("attr", base, attr)
        if isinstance(base, Const):
            if attr == "__class__":
                return Builtin(type(base.v).__name__)
            return Term("attr", base, attr)
        if isinstance(base, (Lst, Dct, Tup)):
            return Term("attr", base, attr)
        ci = class_of(base)
        if isinstance(base, Obj):
            if attr == "__dict__":
                return Term("view", obj_dict(base), "dict")
            if attr in base.attrs:
                return base.attrs[attr]
            if attr == "__class__":
                return Cls(base.cls) if base.cls else Term("attr", base, attr)
        else:
            hv = self.heap.get((show(base), attr))
            if hv is not None:
                return hv
        if attr == "__class__" and ci is not None:
            if self.opts.get("exact_class", True):
                return Cls(ci)
        if ci is not None:
            g = ci.find_getter(attr)
            if g is not None:
                pol = self.opts.get("inline", lambda fi, node: False)
                if pol(g, node) or self.is_private_helper(g):
                    return self.run_function(Fn(g, base), [], {}, node)
                t = Term("attr", base, attr, hint=self.return_hint(g))
                self.emit("getprop", node, base=base, attr=attr, getter=g, term=t)
                return t
            m = ci.find_method(attr)
            if m is not None:
                return Fn(m, base)
            ca = ci.find_class_attr(attr)
            if ca is not None:
                cv = self.p.const_value(ca[1].module, ca[0], ca[1])
                if cv is not UNKNOWN:
                    return to_value(cv)
                shared = self.class_level_object(ca[1], attr, ca[0])
                if shared is not None:
                    return shared
            hint = self.attr_hint(ci, attr)
            return self.cached_attr(base, attr, hint)
        return self.cached_attr(base, attr, None)

    def class_level_object(self, owner: ClassInfo, attr: str, expr):
        """A mutable literal bound in a class body ({} / [] / set() / dict() / list()) is ONE object shared by the class
        and all its instances: evaluate it once per interpreter run and keep it."""
        is_lit = isinstance(expr, (ast.Dict, ast.List, ast.Set)) or (
            isinstance(expr, ast.Call) and isinstance(expr.func, ast.Name) and expr.func.id in ("dict", "list", "set") and not expr.args and not expr.keywords)
        key = ("cls:" + owner.qualname, attr)
        if is_lit:
            if key not in self.heap:
                self.heap[key] = self.eval_in_module(owner.module, expr)
            return self.heap[key]
        # other objects made in the class body (a NamedTuple / private strategy object describing the kind, a partial, a
        # staticmethod, a tuple of such): evaluated once, like the class statement does - when the interpreter can
        if isinstance(expr, (ast.Call, ast.Tuple)) and self.opts.get("class_level_calls", True):
            if isinstance(expr, ast.Call):
                fn_txt = ast.unparse(expr.func)
                target = self.p.resolve_class(owner.module, expr.func) if isinstance(expr.func, (ast.Name, ast.Attribute)) else None
                ok = fn_txt.split(".")[-1] in ("partial", "staticmethod", "attrgetter", "itemgetter", "methodcaller", "tuple", "frozenset", "compile", "MappingProxyType") or (target is not None and (getattr(target, "namedtuple_fields", None) is not None or (target.name.startswith("_") and not target.name.startswith("__"))))
                if not ok:
                    return None
            nokey = ("cls-failed:" + owner.qualname, attr)
            if nokey in self.heap:
                return None
            if key not in self.heap:
                n_ev = len(self.events)
                try:
                    fr = Frame(None, owner.module, {k_: v_ for k_, v_ in self._class_scope(owner).items()})
                    self.heap[key] = self.eval(expr, fr)
                except Undecided:
                    self.heap[nokey] = Const(True)
                    return None
                finally:
                    del self.events[n_ev:]
            return self.heap[key]
        return None

    def _class_scope(self, owner):
        """Names bound earlier in the class body that are plain constants (for class-level expressions referring to them)."""
        out = {}
        for k, e in owner.class_attrs.items():
            cv = self.p.const_value(owner.module, e, owner)
            if cv is not UNKNOWN:
                out[k] = to_value(cv)
        return out

    def cached_attr(self, base, attr, hint):
        """Plain attribute reads of the same object return the same Term until the attribute
        is stored to or a non-inlined callee that may store it runs (see modset)."""
        if isinstance(base, Obj):
            return Term("attr", base, attr, hint=hint)
        cache = self.__dict__.setdefault("_attr_cache", {})
        key = (show(base), attr)
        t = cache.get(key)
        if t is None:
            t = Term("attr", base, attr, hint=hint)
            cache[key] = t
        return t

    def invalidate_attrs(self, base, attrs):
        cache = self.__dict__.setdefault("_attr_cache", {})
        b = show(base)
        for a in attrs:
            cache.pop((b, a), None)
            self.heap.pop((b, a), None)

    def class_dict(self, ci: ClassInfo) -> Dct:
        """Namespace of a class object as CPython builds it: declared members plus the
        implicit entries (__module__, __doc__, __dict__/__weakref__ descriptors)."""
        d = Dct(label=f"{ci.name}.__dict__")
        d.set(Const("__module__"), Const(ci.module.name))
        for k, e in ci.class_attrs.items():
            cv = self.p.const_value(ci.module, e, ci)
            d.set(Const(k), to_value(cv) if cv is not UNKNOWN else Term("classattr", ci.name, k))
        for k, f in list(ci.methods.items()) + list(ci.getters.items()):
            d.set(Const(k), Fn(f))
        # attributes stored on the class object while the program ran (cls.x = ...) are in its namespace too
        pre = "cls:" + ci.qualname
        for (owner, k), v in list(self.heap.items()):
            if owner == pre and isinstance(k, str):
                d.set(Const(k), v)
        doc = ast.get_docstring(ci.node)
        d.set(Const("__dict__"), Obj(None, label="<attribute '__dict__'>"))
        d.set(Const("__weakref__"), Obj(None, label="<attribute '__weakref__'>"))
        d.set(Const("__doc__"), Const(doc))
        return d

    def attr_hint(self, ci: ClassInfo, attr: str) -> Optional[ClassInfo]:
        f = self.opts.get("attr_hints")
        if f:
            return f(ci, attr)
        return None

    def return_hint(self, fi: FunctionInfo) -> Optional[ClassInfo]:
        r = fi.node.returns
        if r is None:
            return None
        if isinstance(r, ast.Constant) and isinstance(r.value, str):
            try:
                r = ast.parse(r.value, mode="eval").body
            except SyntaxError:
                return None
        return self.p.resolve_class(fi.module, r) if isinstance(r, (ast.Name, ast.Attribute)) else None

    def ex_Subscript(self, e, frame):
        base = self.eval(e.value, frame)
        if isinstance(e.slice, ast.Slice):
            lo = self.eval(e.slice.lower, frame) if e.slice.lower else None
            hi = self.eval(e.slice.upper, frame) if e.slice.upper else None
            stp = self.eval(e.slice.step, frame) if e.slice.step else None
            if isinstance(base, Const) and isinstance(base.v, (str, bytes)) and all(x is None or isinstance(x, Const) for x in (lo, hi, stp)):
                return Const(base.v[slice(lo.v if lo else None, hi.v if hi else None, stp.v if stp else None)])
            if isinstance(base, (Tup, Lst)) and all(x is None or isinstance(x, Const) for x in (lo, hi, stp)):
                return type(base)(base.items[slice(lo.v if lo else None, hi.v if hi else None, stp.v if stp else None)])
            if isinstance(base, Const) and (base.v is None or isinstance(base.v, (int, float, bool))):
                x = Term("exc", "TypeError", f"{type(base.v).__name__} is not subscriptable")
                self.emit("raise", e, value=x)
                raise _Raise(x, e)
            return Term("sub", base, Term("slice", lo, hi, stp), node=e)
        key = self.eval(e.slice, frame)
        if (isinstance(base, Obj) and base.label.startswith("re.Match")) or (isinstance(base, Term) and getattr(base, "regex", None) is not None):
            # m[n] is m.group(n)
            return self.apply(self.get_attr(base, "group", e, frame), [key], {}, [], e, frame, False)
        if isinstance(base, Dct):
            v = base.get(key)
            if v is not None:
                return v
            if isinstance(base, DDct) and all(same_value(k, key) is False for k, _ in base.pairs):
                d = base.default()
                if base.kind != "counter":
                    base.set(key, d)
                return d
            if isinstance(key, (Const, Obj)):
                self.emit("raise", e, value=Term("exc", "KeyError"))
                raise _Raise(Term("exc", "KeyError"), e)
        if isinstance(base, (Tup, Lst)) and isinstance(key, Const) and isinstance(key.v, int):
            if -len(base.items) <= key.v < len(base.items):
                return base.items[key.v]
            self.emit("raise", e, value=Term("exc", "IndexError"))
            raise _Raise(Term("exc", "IndexError"), e)
        if isinstance(base, Const) and isinstance(base.v, (str, bytes)) and isinstance(key, Const):
            try:
                return Const(base.v[key.v])
            except Exception:
                raise _Raise(Term("exc", "IndexError"), e)
        if isinstance(base, Const) and (base.v is None or isinstance(base.v, (int, float, bool))):
            x = Term("exc", "TypeError", f"{type(base.v).__name__} is not subscriptable")
            self.emit("raise", e, value=x)
            raise _Raise(x, e)
        hint = self.value_hint_of_container(base)
        t = Term("sub", base, key, hint=hint, node=e)
        self.emit("subscript", e, base=base, key=key, term=t)
        return t

    def ex_Tuple(self, e, frame):
        return Tup(self.eval_elts(e.elts, frame))

    def ex_List(self, e, frame):
        return Lst(self.eval_elts(e.elts, frame))

    def ex_Set(self, e, frame):
        out = []
        for x in self.eval_elts(e.elts, frame):
            if not any(same_value(x, y) is True for y in out):
                out.append(x)
        return SetV(out)

    def eval_elts(self, elts, frame):
        out = []
        for x in elts:
            if isinstance(x, ast.Starred):
                v = self.eval(x.value, frame)
                if isinstance(v, (Tup, Lst)):
                    out.extend(v.items)
                else:
                    out.append(Term("star", v))
            else:
                out.append(self.eval(x, frame))
        return out

    def ex_Dict(self, e, frame):
        d = Dct()
        for k, v in zip(e.keys, e.values):
            if k is None:
                inner = self.eval(v, frame)
                if isinstance(inner, Dct):
                    for kk, vv in inner.pairs:
                        d.set(kk, vv)
                else:
                    d.pairs.append([Term("star", inner), Term("star", inner)])
            else:
                d.set(self.eval(k, frame), self.eval(v, frame))
        return d

    def ex_JoinedStr(self, e, frame):
        parts = []
        allconst = True
        for v in e.values:
            if isinstance(v, ast.Constant):
                parts.append(str(v.value))
            else:
                val = self.eval(v.value, frame)
                spec = ""
                if v.format_spec is not None:
                    sv = self.eval(v.format_spec, frame)  # f"{x:0{n}d}": the spec is itself a formatted string
                    spec = sv.v if isinstance(sv, Const) and isinstance(sv.v, str) else ast.unparse(v.format_spec)[2:-1]
                if isinstance(val, Const) and not spec and v.conversion == -1 and isinstance(val.v, (str, int)):
                    parts.append(str(val.v))
                elif isinstance(val, Term) and val.op == "fstr" and not spec and v.conversion == -1:
                    # an f-string interpolated into an f-string: its parts are this string's parts
                    allconst = False
                    parts.extend(val.args)
                else:
                    allconst = False
                    parts.append((val, spec))
        if allconst:
            return Const("".join(parts))
        return Term("fstr", *parts)

    def ex_IfExp(self, e, frame):
        c = self.eval(e.test, frame)
        t = self.truth_of(c)
        if t is None and self.opts.get("fork_ifexp", True):
            t = self.truth(c, e.test)
        if t is True:
            return self.eval(e.body, frame)
        if t is False:
            return self.eval(e.orelse, frame)
        return Term("ifexp", c, self.eval(e.body, frame), self.eval(e.orelse, frame))

    def ex_BoolOp(self, e, frame):
        is_and = isinstance(e.op, ast.And)
        last = None
        for i, sub in enumerate(e.values):
            v = self.eval(sub, frame)
            last = v
            if i == len(e.values) - 1:
                return v
            t = self.truth(v, sub)
            if is_and and not t:
                return v
            if not is_and and t:
                return v
        return last

    def ex_UnaryOp(self, e, frame):
        v = self.eval(e.operand, frame)
        if isinstance(e.op, ast.Not):
            t = self.truth_of(v)
            if t is not None:
                return Const(not t)
            return Term("not", v)
        if isinstance(v, Const) and isinstance(v.v, (int, float)):
            if isinstance(e.op, ast.USub):
                return Const(-v.v)
            if isinstance(e.op, ast.UAdd):
                return Const(+v.v)
        return Term("unary", type(e.op).__name__, v)

    def ex_BinOp(self, e, frame):
        l = self.eval(e.left, frame)
        r = self.eval(e.right, frame)
        return self.binop(type(e.op).__name__, l, r, e)

    def binop(self, op, l, r, node):
        if isinstance(l, Const) and isinstance(r, Const):
            try:
                f = {
                    "Add": lambda a, b: a + b, "Sub": lambda a, b: a - b, "Mult": lambda a, b: a * b,
                    "Div": lambda a, b: a / b, "Mod": lambda a, b: a % b, "FloorDiv": lambda a, b: a // b,
                    "BitOr": lambda a, b: a | b, "BitAnd": lambda a, b: a & b, "LShift": lambda a, b: a << b,
                    "Pow": lambda a, b: a ** b if abs(b) <= 64 else None,
                }.get(op)
                if f is not None:
                    return Const(f(l.v, r.v))
            except (ZeroDivisionError, OverflowError, TypeError, ValueError) as ex_:
                # the operation on these very operands raises (1/0, '%f' % 10**400, 'a' + 1): so does the program
                x = Term("exc", type(ex_).__name__, str(ex_)[:60])
                self.emit("raise", node, value=x, implicit=True)
                raise _Raise(x, node)
            except Exception:
                pass
        if op == "Add" and (isinstance(l, Term) and l.op == "fstr" or isinstance(r, Term) and r.op == "fstr"):
            # text built piecewise: concatenation of formatted strings stays one formatted string
            def parts_(x):
                if isinstance(x, Term) and x.op == "fstr":
                    return list(x.args)
                if isinstance(x, Const) and isinstance(x.v, str):
                    return [x.v]
                return None
            pl, pr = parts_(l), parts_(r)
            if pl is not None and pr is not None:
                return Term("fstr", *(pl + pr))
        if op == "BitOr" and isinstance(l, Dct) and isinstance(r, Dct):
            d = Dct(list(l.pairs))
            for k_, v_ in r.pairs:
                d.set(k_, v_)
            return d
        if op == "Mult" and isinstance(l, (Tup, Lst)) and isinstance(r, Const) and isinstance(r.v, int) and 0 <= r.v <= 16:
            return type(l)(list(l.items) * r.v)
        if op == "Add" and isinstance(l, Tup) and isinstance(r, Tup):
            return Tup(l.items + r.items)
        if op == "Add" and isinstance(l, Lst) and isinstance(r, Lst):
            return Lst(l.items + r.items)
        sym = {"Add": "+", "Sub": "-", "Mult": "*", "Div": "/", "Mod": "%", "FloorDiv": "//", "BitOr": "|", "BitAnd": "&", "LShift": "<<", "RShift": ">>", "Pow": "**"}.get(op, op)
        def _ty(x):
            if isinstance(x, Const):
                return type(x.v).__name__
            return getattr(x, "pytype", None)
        pt = None
        if op in ("Add", "Sub", "Mult", "FloorDiv", "Mod") and _ty(l) == "int" and _ty(r) == "int":
            pt = "int"
        elif op == "Add" and _ty(l) == "str" and _ty(r) == "str":
            pt = "str"
        return Term("binop", sym, l, r, node=node, pytype=pt)

    def ex_Compare(self, e, frame):
        left = self.eval(e.left, frame)
        result = None
        for op, rhs in zip(e.ops, e.comparators):
            right = self.eval(rhs, frame)
            r = self.compare(type(op).__name__, left, right, e)
            if len(e.ops) == 1:
                return r
            t = self.truth(r, e)
            if not t:
                return Const(False)
            result = r
            left = right
        return Const(True)

    def compare(self, op, l, r, node) -> Value:
        # canonical operand order: a constant goes to the right ('0 == x' and 'x == 0' are one condition;
        # str/int == falls back to the reflected __eq__ of an object operand, so the result is the same)
        if isinstance(l, Const) and not isinstance(r, Const):
            if op in ("Eq", "NotEq"):
                l, r = r, l
            elif op in ("Lt", "LtE", "Gt", "GtE"):
                op = {"Lt": "Gt", "LtE": "GtE", "Gt": "Lt", "GtE": "LtE"}[op]
                l, r = r, l
        v = self._compare(op, l, r, node)
        if isinstance(v, Term) and v.op == "cmp":
            # the same comparison of the same operand objects is the same condition
            def k(x):
                return ("c", type(x.v).__name__, repr(x.v)) if isinstance(x, Const) else ("o", id(x))
            cache = self.__dict__.setdefault("_cmp_cache", {})
            key = (v.args[0], k(l), k(r))
            hit = cache.get(key)
            if hit is not None:
                return hit[0]
            cache[key] = (v, l, r)
        return v

    def _compare(self, op, l, r, node) -> Value:
        if op in ("Eq", "NotEq") and isinstance(l, Obj) and l.cls is not None and l is not r:
            eqm = l.cls.find_method("__eq__")
            pol = self.opts.get("inline", lambda fi, node: False)
            # equality defined by a repository class is part of what '==' means for its objects: evaluated whenever both
            # operands are abstract objects (closed world), otherwise when the inline policy asks for it
            both_objs = isinstance(r, Obj) and r.cls is not None and self.opts.get("user_eq", True)
            if eqm is not None and (pol(eqm, node) or getattr(eqm, "synthetic", False) or both_objs):
                saved_pol = self.opts.get("inline")
                if both_objs:
                    # what the comparison consults on the two objects (their own properties and methods) belongs to it
                    own = set(l.cls.mro) | set(r.cls.mro)
                    self.opts["inline"] = lambda fi, node_, _s=saved_pol: True if fi.cls in own else (_s(fi, node_) if _s else False)
                try:
                    res = self.run_function(Fn(eqm, l), [r], {}, node)
                except Undecided:
                    if not both_objs or pol(eqm, node):
                        raise
                    res = None
                finally:
                    if saved_pol is None:
                        self.opts.pop("inline", None)
                    else:
                        self.opts["inline"] = saved_pol
                if isinstance(res, Const) and res.v is NotImplemented:
                    # Python then tries the reflected operation and finally falls back to identity
                    reqm = r.cls.find_method("__eq__") if isinstance(r, Obj) and r.cls is not None else None
                    res = self.run_function(Fn(reqm, r), [l], {}, node) if reqm is not None and reqm is not eqm else Const(NotImplemented)
                    if isinstance(res, Const) and res.v is NotImplemented:
                        res = Const(l is r)
                if res is None:
                    pass
                else:
                    t = self.truth_of(res)
                    if t is not None:
                        return Const(t if op == "Eq" else not t)
                    return res if op == "Eq" else Term("not", res)
        if op in ("Eq", "NotEq", "Is", "IsNot"):
            s = same_value(l, r)
            if s is None and op in ("Eq", "NotEq"):
                s = self.eq_override(l, r)
            if s is None and op in ("Is", "IsNot", "Eq", "NotEq"):
                # the result of an arithmetic / string / comparison operation, a constructed object, a formatted string
                # is never None
                for x, y in ((l, r), (r, l)):
                    if isinstance(y, Const) and y.v is None and isinstance(x, Term) and x.op in ("binop", "fstr", "cmp", "not", "new", "comp", "getter", "getters", "partial", "methodcaller", "lambda", "view"):
                        s = False
            if s is None and op in ("Is", "IsNot"):
                # identity between two abstract objects is the identity of the model objects (a sentinel object() is not a
                # list); identity of a symbolic value against None etc. stays symbolic
                ident = (Obj, Lst, Dct, Tup, Cls, Fn)
                if (isinstance(l, ident) and not isinstance(r, Term)) or (isinstance(r, ident) and not isinstance(l, Term)):
                    s = l is r
            if s is not None:
                return Const(s if op in ("Eq", "Is") else not s)
            if op in ("Eq", "NotEq"):
                d = self.decide_by_bounds("==" if op == "Eq" else "!=", l, r)
                if d is not None:
                    return Const(d)
            return Term("cmp", {"Eq": "==", "NotEq": "!=", "Is": "is", "IsNot": "is not"}[op], l, r, node=node)
        if op in ("In", "NotIn"):
            items = None
            if isinstance(r, (Tup, Lst)):
                items = r.items
            elif isinstance(r, Dct):
                items = [k for k, _ in r.pairs]
            elif isinstance(r, Term) and r.op == "view" and isinstance(r.args[0], Dct):
                d = r.args[0]
                items = [k for k, _ in d.pairs] if r.args[1] in ("keys", "dict") else ([Tup([k, x]) for k, x in d.pairs] if r.args[1] == "items" else [x for _, x in d.pairs])
            elif isinstance(r, Const) and isinstance(r.v, str) and isinstance(l, Const) and isinstance(l.v, str):
                res = l.v in r.v
                return Const(res if op == "In" else not res)
            if items is not None and not any(isinstance(x, Term) and x.op == "star" for x in items):
                unknown = []
                for x in items:
                    s = same_value(l, x)
                    if s is None:
                        s = self.eq_override(l, x)
                    if s is True:
                        return Const(op == "In")
                    if s is None:
                        unknown.append(x)
                if not unknown:
                    return Const(op != "In")
                # membership reduces to equality with the undecided members
                sub = [Term("cmp", "==", l, x) for x in unknown]
                t = sub[0] if len(sub) == 1 else Term("or", *sub)
                return t if op == "In" else Term("not", t)
            return Term("cmp", "in" if op == "In" else "not in", l, r, node=node)
        if isinstance(l, Const) and isinstance(r, Const):
            try:
                f = {"Lt": lambda a, b: a < b, "LtE": lambda a, b: a <= b, "Gt": lambda a, b: a > b, "GtE": lambda a, b: a >= b}[op]
                return Const(f(l.v, r.v))
            except Exception:
                pass
        sym = {"Lt": "<", "LtE": "<=", "Gt": ">", "GtE": ">="}[op]
        d = self.decide_by_bounds(sym, l, r)
        if d is not None:
            return Const(d)
        return Term("cmp", sym, l, r, node=node)

    # ---- integer interval facts about individual Term objects (keyed by identity) ----
    def bounds_of(self, t):
        rec = self.__dict__.setdefault("_bounds", {}).get(id(t))
        if rec is not None:
            return rec[1:]
        return self.intrinsic_bounds(t)

    def intrinsic_bounds(self, t, depth=0):
        """Bounds that hold for every value of the term: str.find/rfind >= -1, len() >= 0, x + c."""
        if not isinstance(t, Term) or depth > 4:
            return (None, None)
        if t.op == "call" and isinstance(t.args[0], Term) and t.args[0].op == "attr" and t.args[0].args[1] in ("find", "rfind"):
            return (-1, None)
        if t.op == "call" and isinstance(t.args[0], Builtin) and t.args[0].name == "len":
            return (0, None)
        if t.op == "binop" and t.args[0] in ("+", "-"):
            l, r = t.args[1], t.args[2]
            if isinstance(r, Const) and isinstance(r.v, int) and not isinstance(r.v, bool):
                lo, hi = self.bounds_of(l) if isinstance(l, Term) else (None, None)
                k = r.v if t.args[0] == "+" else -r.v
                return (lo + k if lo is not None else None, hi + k if hi is not None else None)
        return (None, None)

    def _norm_cmp(self, sym, l, r):
        """-> (term, op, k) with the term on the left, or None."""
        if isinstance(l, Term) and isinstance(r, Const) and isinstance(r.v, int) and not isinstance(r.v, bool):
            return l, sym, r.v
        if isinstance(r, Term) and isinstance(l, Const) and isinstance(l.v, int) and not isinstance(l.v, bool):
            flip = {"<": ">", "<=": ">=", ">": "<", ">=": "<=", "==": "==", "!=": "!="}[sym]
            return r, flip, l.v
        return None

    def decide_by_bounds(self, sym, l, r):
        n = self._norm_cmp(sym, l, r)
        if n is None:
            return None
        t, op, k = n
        lo, hi = self.bounds_of(t)
        if op == "<":
            if hi is not None and hi < k: return True
            if lo is not None and lo >= k: return False
        if op == "<=":
            if hi is not None and hi <= k: return True
            if lo is not None and lo > k: return False
        if op == ">":
            if lo is not None and lo > k: return True
            if hi is not None and hi <= k: return False
        if op == ">=":
            if lo is not None and lo >= k: return True
            if hi is not None and hi < k: return False
        if op == "==":
            if lo is not None and hi is not None and lo == hi == k: return True
            if (lo is not None and lo > k) or (hi is not None and hi < k): return False
        if op == "!=":
            if lo is not None and hi is not None and lo == hi == k: return False
            if (lo is not None and lo > k) or (hi is not None and hi < k): return True
        return None

    def learn_from(self, cond, truth):
        if isinstance(cond, Term) and cond.op == "not":
            return self.learn_from(cond.args[0], not truth)
        if isinstance(cond, Term) and cond.op != "cmp" and (cond.pytype == "int" or self.intrinsic_bounds(cond) != (None, None)):
            # truthiness of an integer: 'if end:' is 'end != 0'
            cond = Term("cmp", "!=", cond, Const(0))
        if not (isinstance(cond, Term) and cond.op == "cmp"):
            return
        n = self._norm_cmp(cond.args[0], cond.args[1], cond.args[2]) if cond.args[0] in ("<", "<=", ">", ">=", "==", "!=") else None
        if n is None:
            return
        t, op, k = n
        if not truth:
            op = {"<": ">=", "<=": ">", ">": "<=", ">=": "<", "==": "!=", "!=": "=="}[op]
        lo, hi = self.bounds_of(t)
        if op == "<": hi = k - 1 if hi is None else min(hi, k - 1)
        elif op == "<=": hi = k if hi is None else min(hi, k)
        elif op == ">": lo = k + 1 if lo is None else max(lo, k + 1)
        elif op == ">=": lo = k if lo is None else max(lo, k)
        elif op == "==": lo, hi = k, k
        elif op == "!=":
            if lo is not None and lo == k: lo = k + 1
            if hi is not None and hi == k: hi = k - 1
        self.__dict__.setdefault("_bounds", {})[id(t)] = (t, lo, hi)

    def eq_override(self, l, r):
        f = self.opts.get("eq_oracle")
        if f:
            return f(l, r)
        return None

    def close_generators(self):
        for g in self.__dict__.get("_live_gens", []):
            g.close()
        self.__dict__["_live_gens"] = []

    def _gen_value(self, items):
        g_ = Lst(list(items))
        g_.is_gen = True
        return g_

    def _gen_frame(self, frame):
        f = frame
        while f is not None and not hasattr(f, "yields"):
            f = f.parent if getattr(f, "fi", None) is None else None
        return f

    def ex_Yield(self, e, frame):
        if not hasattr(frame, "yields"):
            raise Undecided("yield outside an inlined generator function")
        v = self.eval(e.value, frame) if e.value is not None else Const(None)
        stack = self.__dict__.get("_cm_stack")
        if stack and stack[-1]["fi"] is frame.fi and not stack[-1]["done"]:
            self._cm_yield(stack[-1], v)
            return Const(None)
        if getattr(frame, "gen", None) is not None:
            frame.gen.emit_value(v)
            return Const(None)
        frame.yields.append(v)
        return Const(None)

    def ex_YieldFrom(self, e, frame):
        if not hasattr(frame, "yields"):
            raise Undecided("yield from outside an inlined generator function")
        v = self.eval(e.value, frame)
        if getattr(frame, "gen", None) is not None:
            if isinstance(v, Gen):
                while True:
                    r = v.pull()
                    if r is None:
                        return Const(None)
                    frame.gen.emit_value(r[0])
            items = self.concrete_iter(v)
            if items is None:
                raise Undecided("yield from a sequence that is not concrete")
            live = v if isinstance(v, Lst) and not getattr(v, "is_gen", False) else None
            i = 0
            while i < len(live.items if live is not None else items):
                frame.gen.emit_value((live.items if live is not None else items)[i])
                i += 1
            return Const(None)
        items = self.concrete_iter(v)
        if items is None:
            raise Undecided("yield from a sequence that is not concrete")
        frame.yields.extend(items)
        return Const(None)

    def ex_Lambda(self, e, frame):
        t = Term("lambda", e.lineno, node=e)
        t.lam = (e, frame)  # callable: see apply()
        return t

    def ex_Await(self, e, frame):
        # a directly awaited coroutine call may be inlined
        inner = e.value
        v = None
        if isinstance(inner, ast.Call):
            v = self.call(inner, frame, awaited=True)
        else:
            v = self.eval(inner, frame)
        ev = self.emit("await", e, value=v)
        if self.opts.get("await_may_raise") and self.opts["await_may_raise"](ev):
            if self.choose(2, "await-raise") == 1:
                x = Term("exc", None, "raised at await")
                self.emit("raise", e, value=x, implicit=True)
                raise _Raise(x, e)
        if isinstance(v, Term) and v.op == "awaited-result":
            return v.args[0]
        return Term("await", v, hint=getattr(v, "hint", None))

    def ex_Starred(self, e, frame):
        return Term("star", self.eval(e.value, frame))

    def ex_NamedExpr(self, e, frame):
        v = self.eval(e.value, frame)
        frame.env[e.target.id] = v
        return v

    # comprehensions -------------------------------------------------------
    @staticmethod
    def _as_set(items):
        out = []
        for x in items:
            if not any(same_value(x, y) is True for y in out):
                out.append(x)
        return SetV(out)

    def _comp(self, e, frame, kind):
        gens = e.generators
        if len(gens) != 1:
            return self._comp_nested(e, frame, kind)
        g = gens[0]
        itv = self.eval(g.iter, frame)
        items = self.concrete_iter(itv)
        sub = Frame(frame.fi, frame.module, {}, parent=frame, cls=frame.cls)
        if items is not None:
            out = []
            for item in items:
                self.assign(g.target, item, sub, e)
                ok = True
                for c in g.ifs:
                    cv = self.eval(c, sub)
                    if not self.truth(cv, c):
                        ok = False
                        break
                if ok:
                    if kind == "dict":
                        out.append((self.eval(e.key, sub), self.eval(e.value, sub)))
                    else:
                        out.append(self.eval(e.elt, sub))
            if kind == "dict":
                return Dct(out)
            if kind == "gen":
                g_ = Lst(out)
                g_.is_gen = True
                return g_
            return Lst(out) if kind == "list" else (self._as_set(out) if kind == "set" else Tup(out))
        if self.opts.get("concrete_only"):
            raise Undecided(f"a comprehension iterates over a value that constant evaluation does not know ({show(itv)[:70]}, line {e.lineno})")
        item = self.sym_elem(itv, "i")
        if isinstance(g.target, (ast.Tuple, ast.List)) and not isinstance(item, Tup):
            self.emit("unpack", e, value=item, arity=len(g.target.elts), loop_target=True)
        self.assign(g.target, item, sub, e)
        saved_fork = self.opts.get("fork_ifexp", True)
        conds = []
        for c in g.ifs:
            conds.append(self.eval_nofork(c, sub))
        if kind == "dict":
            elt = Tup([self.eval_nofork(e.key, sub), self.eval_nofork(e.value, sub)])
        else:
            elt = self.eval_nofork(e.elt, sub)
        return Term("comp", elt, itv, tuple(conds), kind, node=e)

    def _comp_nested(self, e, frame, kind):
        """Several 'for' clauses: evaluated when every iterable met is concrete (the usual case in constructed worlds)."""
        sub = Frame(frame.fi, frame.module, {}, parent=frame, cls=frame.cls)
        out = []

        def rec(i):
            if i == len(e.generators):
                if kind == "dict":
                    out.append((self.eval(e.key, sub), self.eval(e.value, sub)))
                else:
                    out.append(self.eval(e.elt, sub))
                return
            g = e.generators[i]
            items = self.concrete_iter(self.eval(g.iter, sub))
            if items is None:
                raise Undecided("nested comprehension over a symbolic iterable")
            for item in items:
                self.assign(g.target, item, sub, e)
                if all(self.truth(self.eval(c, sub), c) for c in g.ifs):
                    rec(i + 1)

        rec(0)
        if kind == "dict":
            d = Dct()
            for k_, v_ in out:
                d.set(k_, v_)
            return d
        if kind == "gen":
            g_ = Lst(out)
            g_.is_gen = True
            return g_
        return Lst(out) if kind == "list" else (self._as_set(out) if kind == "set" else Tup(out))

    def eval_nofork(self, e, frame):
        """Evaluate without forking on unknown sub-conditions (inside symbolic comprehensions)."""
        saved = (self.truth, self.opts.get("fork_ifexp", True))
        self.opts["fork_ifexp"] = False
        outer = self

        def nofork_truth(v, node=None):
            t = outer.truth_of(v)
            if t is None:
                raise _NoFork()
            return t

        self.truth = nofork_truth
        try:
            try:
                return self.eval(e, frame)
            except _NoFork:
                return Term("expr", stmt_text(e), node=e)
        finally:
            self.truth = saved[0]
            self.opts["fork_ifexp"] = saved[1]

    def ex_ListComp(self, e, frame):
        return self._comp(e, frame, "list")

    def ex_SetComp(self, e, frame):
        return self._comp(e, frame, "set")

    def ex_GeneratorExp(self, e, frame):
        g = self._lazy_genexp(e, frame)
        if g is not None:
            return g
        return self._comp(e, frame, "gen")

    def _lazy_genexp(self, e, frame):
        """A generator expression over a concrete first iterable is the generator function Python makes of it: the first
        iterable is evaluated now, everything else (conditions, element expressions, inner loops) when the consumer asks
        for the next element.  Anything else keeps the symbolic treatment of _comp."""
        if not self.opts.get("lazy_generators", True) or any(getattr(g_, "is_async", 0) for g_ in e.generators):
            return None
        first = self.eval(e.generators[0].iter, frame)
        if isinstance(first, Gen):
            src = first
        else:
            items = self.concrete_iter(first)
            if items is None:
                # not concrete: let _comp evaluate it again symbolically (evaluation of the iterable has no effects
                # worth keeping twice only for calls; conservatively give up laziness)
                if isinstance(e.generators[0].iter, ast.Call):
                    return None
                return None
            # a list is walked live (by index) like a for loop does; other containers by their snapshot
            src = first if isinstance(first, Lst) and not getattr(first, "is_gen", False) else Lst(items)
        cache = self.__dict__.setdefault("_genexp_fns", {})
        fi = cache.get(id(e))
        if fi is None:
            body = ast.Expr(value=ast.Yield(value=e.elt))
            stmt = body
            for i_, g_ in reversed(list(enumerate(e.generators))):
                for cond in reversed(g_.ifs):
                    stmt = ast.If(test=cond, body=[stmt], orelse=[])
                it_expr = ast.Name(id="__genexp_iter__", ctx=ast.Load()) if i_ == 0 else g_.iter
                stmt = ast.For(target=g_.target, iter=it_expr, body=[stmt], orelse=[])
            fn = ast.FunctionDef(name="<genexpr>", args=ast.arguments(posonlyargs=[], args=[], vararg=None, kwonlyargs=[], kw_defaults=[], kwarg=None, defaults=[]), body=[stmt], decorator_list=[], returns=None, type_comment=None)
            if hasattr(fn, "type_params"):
                fn.type_params = []
            ast.copy_location(fn, e)
            ast.fix_missing_locations(fn)
            from .model import FunctionInfo
            fi = FunctionInfo(fn, frame.module, None, parent=frame.fi)
            cache[id(e)] = fi
        sub = Frame(fi, frame.module, {"__genexp_iter__": src}, parent=frame, cls=frame.cls)
        sub.yields = []
        g = Gen(self, Fn(fi, None, closure=frame), sub, e)
        sub.gen = g
        return g

    def ex_DictComp(self, e, frame):
        return self._comp(e, frame, "dict")

    # calls ------------------------------------------------------------------
    def ex_Call(self, e, frame):
        return self.call(e, frame, awaited=False)

    def call(self, e: ast.Call, frame: Frame, awaited: bool) -> Value:
        # super()
        if isinstance(e.func, ast.Attribute) and isinstance(e.func.value, ast.Call) and isinstance(e.func.value.func, ast.Name) and e.func.value.func.id == "super" and frame.lookup("super") is None:
            return self.call_super(e, frame)
        callee = self.eval(e.func, frame)
        args = self.eval_elts(e.args, frame)
        kwargs: Dict[str, Value] = {}
        starkw = []
        for k in e.keywords:
            v = self.eval(k.value, frame)
            if k.arg is None:
                if isinstance(v, Dct) and all(isinstance(kk, Const) for kk, _ in v.pairs):
                    for kk, vv in v.pairs:
                        kwargs[kk.v] = vv
                else:
                    starkw.append(v)
            else:
                kwargs[k.arg] = v
        return self.apply(callee, args, kwargs, starkw, e, frame, awaited)

    def call_super(self, e, frame):
        f = frame
        while f is not None and f.cls is None:
            f = f.parent
        if f is None:
            raise Undecided("super() outside a class")
        selfv = None
        ff = frame
        while ff is not None:
            if ff.fi is not None and ff.fi.cls is not None:
                ps = ff.fi.params()
                if ps:
                    selfv = ff.env.get(ps[0])
                break
            ff = ff.parent
        ci = class_of(selfv) or f.cls
        start = f.cls
        mro = ci.mro if start in ci.mro else start.mro
        idx = mro.index(start)
        name = e.func.attr
        target = None
        for c in mro[idx + 1:]:
            if name in c.methods:
                target = c.methods[name]
                break
        args = self.eval_elts(e.args, frame)
        kwargs = {}
        starkw = []
        for k in e.keywords:
            v = self.eval(k.value, frame)
            if k.arg is None:
                if isinstance(v, Dct) and all(isinstance(kk, Const) for kk, _ in v.pairs):
                    for kk, vv in v.pairs:
                        kwargs[kk.v] = vv
                else:
                    starkw.append(v)
            else:
                kwargs[k.arg] = v
        if target is None:
            t = Term("call", Term("attr", Term("super", ci.name), name), tuple(args), tuple(kwargs.items()))
            self.emit("call", e, term=t, callee=None, args=args, kwargs=kwargs, resolved=None, foreign=True)
            return t
        return self.apply(Fn(target, selfv if selfv is not None else Term("param", "self", hint=ci)), args, kwargs, starkw, e, frame, False)

    def apply(self, callee, args, kwargs, starkw, node, frame, awaited) -> Value:
        if isinstance(callee, Foreign) and callee.dotted == "typing.cast" and len(args) == 2:
            return args[1]
        if isinstance(callee, Builtin):
            r = self.call_builtin(callee.name, args, kwargs, node, frame)
            if r is not NotImplemented:
                if callee.name in ("int", "float") and args and not isinstance(args[0], Const) and isinstance(r, Term):
                    # conversions of non-literals are visible to rules and may raise (when the rule says so)
                    ev = self.emit("call", node, term=r, callee=callee, args=args, kwargs=kwargs, resolved=None, foreign=True, inlined=False, awaited=False)
                    self.maybe_raise(ev)
                return r
        if self.opts.get("fold_re", True):
            r = self.fold_re(callee, args, kwargs)
            if r is not None:
                return r
        if isinstance(callee, Foreign) and callee.dotted.split(".")[-1] in ("itemgetter", "attrgetter") and callee.dotted.split(".")[0] in ("operator", "itemgetter", "attrgetter") and len(args) == 1 and isinstance(args[0], Const):
            t_ = Term("getter", callee.dotted.split(".")[-1], args[0])
            return t_
        if isinstance(callee, Foreign) and callee.dotted.split(".")[-1] in ("itemgetter", "attrgetter") and callee.dotted.split(".")[0] in ("operator", "itemgetter", "attrgetter") and len(args) > 1 and all(isinstance(a, Const) for a in args):
            return Term("getters", callee.dotted.split(".")[-1], tuple(args))
        if isinstance(callee, Term) and callee.op == "getters" and len(args) == 1:
            one = [self.apply(Term("getter", callee.args[0], k_), [args[0]], {}, [], node, frame, False) for k_ in callee.args[1]]
            return Tup(one)
        if isinstance(callee, Term) and callee.op == "getter" and len(args) == 1:
            if callee.args[0] == "itemgetter":
                b_ = args[0]
                k_ = callee.args[1]
                if isinstance(b_, (Tup, Lst)) and isinstance(k_.v, int) and -len(b_.items) <= k_.v < len(b_.items):
                    return b_.items[k_.v]
                if isinstance(b_, Dct) and b_.get(k_) is not None:
                    return b_.get(k_)
            elif isinstance(callee.args[1].v, str):
                return self.get_attr(args[0], callee.args[1].v, node, frame)
        if isinstance(callee, Foreign) and callee.dotted in ("asyncio.wait_for", "asyncio.shield", "asyncio.tasks.wait_for") and args and isinstance(args[0], Term) and args[0].op == "call" and isinstance(args[0].args[0], Fn) and args[0].args[0].fi.is_async and awaited:
            # the wrapped coroutine of the repository runs (its effects are the program's), inside a frame that says its
            # completion is waited for only conditionally (timeout / cancellation)
            inner = args[0]
            with self.context("wait_for", callee.dotted, node):
                r_ = self.run_function(inner.args[0], list(inner.args[1]), {k: v for k, v in inner.args[2] if k is not None}, node)
            self.emit("call", node, term=Term("call", callee, tuple(args), tuple(kwargs.items())), callee=callee, args=args, kwargs=kwargs, resolved=None, foreign=True, inlined=False, awaited=True)
            return r_
        if isinstance(callee, Foreign) and callee.dotted in ("math.isfinite", "math.isnan", "math.isinf", "math.floor", "math.ceil", "math.trunc", "math.fabs") and len(args) == 1 and not kwargs and isinstance(args[0], Const) and isinstance(args[0].v, (int, float)) and not isinstance(args[0].v, bool):
            # pure functions of one number, on a constant: the standard library's own result (or exception)
            import math as _math
            try:
                return Const(getattr(_math, callee.dotted.split(".")[1])(args[0].v))
            except (OverflowError, ValueError) as ex_:
                x = Term("exc", type(ex_).__name__, str(ex_)[:60])
                self.emit("raise", node, value=x, implicit=True)
                raise _Raise(x, node)
        if isinstance(callee, Foreign) and callee.dotted.split(".")[-1] == "Counter" and callee.dotted.split(".")[0] in ("collections", "Counter") and not args and not kwargs:
            return DDct("counter")
        if isinstance(callee, Foreign) and callee.dotted.split(".")[-1] == "defaultdict" and callee.dotted.split(".")[0] in ("collections", "defaultdict") and len(args) <= 1 and not kwargs:
            if not args or (isinstance(args[0], Const) and args[0].v is None):
                return Dct([])
            if isinstance(args[0], Builtin) and args[0].name in ("int", "list", "dict", "set"):
                return DDct(args[0].name)
        if isinstance(callee, Foreign) and callee.dotted.split(".")[-1] in ("OrderedDict", "WeakValueDictionary", "WeakKeyDictionary") and not kwargs and (not args or (len(args) == 1 and isinstance(args[0], Dct))):
            # insertion-ordered like every dict here; nothing is ever collected during one evaluation
            return Dct([(k, v) for k, v in args[0].pairs]) if args else Dct([])
        if isinstance(callee, Foreign) and callee.dotted.split(".")[-1] == "MappingProxyType" and len(args) == 1 and isinstance(args[0], Dct):
            return args[0]  # a read-only view of the very same table
        if isinstance(callee, Foreign) and callee.dotted.split(".")[0] == "hashlib" and callee.dotted.split(".")[-1] in ("md5", "sha1", "sha256", "sha512", "blake2b") and len(args) == 1 and isinstance(args[0], Const) and isinstance(args[0].v, bytes) and not [k for k in kwargs if k != "usedforsecurity"]:
            # a digest of constant bytes (standard library on a constant)
            import hashlib as _hl
            h_ = getattr(_hl, callee.dotted.split(".")[-1])(args[0].v)
            return Obj(None, {"__hex__": Const(h_.hexdigest()), "__digest__": Const(h_.digest()), "__closed__": Const(True)}, label="<hash>")
        if isinstance(callee, Term) and callee.op == "attr" and isinstance(callee.args[0], Obj) and callee.args[0].label == "<hash>" and callee.args[1] in ("hexdigest", "digest") and not args:
            return callee.args[0].attrs["__hex__" if callee.args[1] == "hexdigest" else "__digest__"]
        if isinstance(callee, Foreign) and callee.dotted.split(".")[-1] == "partial" and callee.dotted.split(".")[0] in ("functools", "partial") and args:
            return Term("partial", args[0], tuple(args[1:]), tuple(kwargs.items()))
        if isinstance(callee, Term) and callee.op == "partial":
            kw2 = dict(callee.args[2])
            kw2.update(kwargs)
            return self.apply(callee.args[0], list(callee.args[1]) + list(args), kw2, starkw, node, frame, awaited)
        if isinstance(callee, Foreign) and callee.dotted.split(".")[-1] == "methodcaller" and callee.dotted.split(".")[0] in ("operator", "methodcaller") and args and isinstance(args[0], Const) and isinstance(args[0].v, str):
            return Term("methodcaller", args[0], tuple(args[1:]), tuple(kwargs.items()))
        if isinstance(callee, Term) and callee.op == "methodcaller" and len(args) == 1 and not kwargs:
            m_ = self.get_attr(args[0], callee.args[0].v, node, frame)
            return self.apply(m_, list(callee.args[1]), dict(callee.args[2]), [], node, frame, awaited)
        if isinstance(callee, Foreign) and callee.dotted in ("itertools.chain", "chain") and not kwargs:
            cols = [self.concrete_iter(a) for a in args]
            if all(c_ is not None for c_ in cols):
                g_ = Lst([x for c_ in cols for x in c_])
                g_.is_gen = True
                return g_
        if ((isinstance(callee, Foreign) and callee.dotted in ("itertools.chain.from_iterable", "chain.from_iterable")) or (isinstance(callee, Term) and callee.op == "attr" and isinstance(callee.args[0], Foreign) and callee.args[0].dotted in ("itertools.chain", "chain") and callee.args[1] == "from_iterable")) and len(args) == 1 and not kwargs:
            outer = self.concrete_iter(args[0])
            if outer is not None:
                cols = [self.concrete_iter(a) for a in outer]
                if all(c_ is not None for c_ in cols):
                    g_ = Lst([x for c_ in cols for x in c_])
                    g_.is_gen = True
                    return g_
        if isinstance(callee, Foreign) and callee.dotted in ("itertools.islice", "islice") and len(args) in (2, 3) and all(isinstance(a, Const) and (a.v is None or isinstance(a.v, int)) for a in args[1:]):
            items = self.concrete_iter(args[0])
            if items is not None:
                import itertools as _it
                g_ = Lst(list(_it.islice(items, *[a.v for a in args[1:]])))
                g_.is_gen = True
                return g_
        if isinstance(callee, Foreign) and callee.dotted in ("itertools.takewhile", "takewhile", "itertools.dropwhile", "dropwhile", "itertools.filterfalse", "filterfalse") and len(args) == 2:
            items = self.concrete_iter(args[1])
            if items is not None:
                kind_ = callee.dotted.split(".")[-1]
                out_, dropping = [], True
                for x in items:
                    t_ = self.truth(self.apply(args[0], [x], {}, [], node, frame, False), node) if not (isinstance(args[0], Const) and args[0].v is None) else self.truth(x, node)
                    if kind_ == "takewhile":
                        if not t_:
                            break
                        out_.append(x)
                    elif kind_ == "dropwhile":
                        if dropping and t_:
                            continue
                        dropping = False
                        out_.append(x)
                    elif not t_:
                        out_.append(x)
                g_ = Lst(out_)
                g_.is_gen = True
                return g_
        if isinstance(callee, Foreign) and callee.dotted in ("operator.eq", "operator.ne", "operator.is_", "operator.is_not", "operator.contains", "operator.not_", "operator.truth") and not kwargs:
            op_ = callee.dotted.split(".")[1]
            if op_ in ("eq", "ne", "is_", "is_not") and len(args) == 2:
                return self.compare({"eq": "Eq", "ne": "NotEq", "is_": "Is", "is_not": "IsNot"}[op_], args[0], args[1], node)
            if op_ == "contains" and len(args) == 2:
                return self.compare("In", args[1], args[0], node)
        fm = self.opts.get("foreign_model")
        if fm is not None and isinstance(callee, (Foreign, Term)):
            r = fm(self, callee, args, kwargs)
            if r is not None:
                return r
        if isinstance(callee, Term) and callee.op == "attr" and isinstance(callee.args[0], Cls) and callee.args[1] == "__subclasses__" and not args:
            return Lst([Cls(c) for c in callee.args[0].ci.subclasses])
        if isinstance(callee, Term) and callee.op == "attr" and isinstance(callee.args[0], Cls) and callee.args[1] == "mro" and not args:
            return Lst([Cls(c) for c in callee.args[0].ci.mro] + [Builtin("object")])
        if isinstance(callee, Term) and callee.op == "attr":
            r = self.call_method_model(callee.args[0], callee.args[1], args, kwargs, node)
            if r is not NotImplemented:
                return r
        if isinstance(callee, Term) and callee.op == "lambda" and getattr(callee, "lam", None) is not None and not starkw:
            node_, fr_ = callee.lam
            la = node_.args
            names = [x.arg for x in la.posonlyargs + la.args]
            if not la.vararg and not la.kwarg and len(args) <= len(names):
                env = {}
                for i_, n_ in enumerate(names):
                    if i_ < len(args):
                        env[n_] = args[i_]
                    elif n_ in kwargs:
                        env[n_] = kwargs[n_]
                    else:
                        di = i_ - (len(names) - len(la.defaults))
                        if di < 0:
                            raise _Raise(Term("exc", "TypeError", "missing lambda argument"), node)
                        env[n_] = self.eval(la.defaults[di], fr_)
                return self.eval(node_.body, Frame(fr_.fi, fr_.module, env, parent=fr_, cls=fr_.cls))
        if isinstance(callee, Obj) and callee.cls is not None:
            # calling an instance calls its class's __call__
            cm = callee.cls.find_method("__call__")
            if cm is not None:
                callee = Fn(cm, callee)
        kwt = tuple(kwargs.items()) + tuple((None, s) for s in starkw)
        if isinstance(callee, Fn) and any(d.split("(")[0].split(".")[-1] in ("singledispatch", "singledispatchmethod") for d in getattr(callee.fi, "decorators", [])):
            chosen = self._dispatch_target(callee, args)
            if chosen is not None and chosen is not callee.fi:
                callee = Fn(chosen, callee.self_val, closure=getattr(callee, "closure", None))
        if isinstance(callee, Fn):
            fi = callee.fi
            pol = self.opts.get("inline", lambda fi, node: False)
            do_inline = (pol(fi, node) or self.is_private_helper(fi)) and not starkw and not any(isinstance(a, Term) and a.op == "star" for a in args)
            if fi.is_async and not awaited:
                do_inline = False
            t = Term("call", callee, tuple(args), kwt, hint=self.return_hint(fi), node=node)
            ev = self.emit("call", node, term=t, callee=callee, args=args, kwargs=kwargs, resolved=fi, foreign=False, inlined=do_inline, awaited=awaited)
            if do_inline:
                r = self.run_function(callee, args, kwargs, node)
                if awaited:
                    return Term("awaited-result", r)
                return r
            if callee.self_val is not None and not isinstance(callee.self_val, Obj):
                self.invalidate_attrs(callee.self_val, modset(self.p, fi))
            self.maybe_raise(ev)
            eff = self.opts.get("call_effect")
            if eff is not None:
                # a rule's model of what a call that is not inlined does (e.g. user handlers behind raise_event)
                r = eff(self, callee, args, kwargs, ev)
                if r is not None:
                    return r
            return t
        if isinstance(callee, Cls) and not starkw and getattr(callee.ci, "namedtuple_fields", None) is not None and callee.ci.find_method("__new__") is None:
            fields = callee.ci.namedtuple_fields
            vals = []
            for i_, (n_, d_) in enumerate(fields):
                if i_ < len(args):
                    vals.append(args[i_])
                elif n_ in kwargs:
                    vals.append(kwargs[n_])
                elif d_ is not None:
                    vals.append(self.eval_in_module(callee.ci.module, d_))
                else:
                    x = Term("exc", "TypeError", f"missing field {n_}")
                    self.emit("raise", node, value=x)
                    raise _Raise(x, node)
            if len(args) > len(fields) or any(k_ not in [n for n, _ in fields] for k_ in kwargs):
                x = Term("exc", "TypeError", "unexpected argument")
                self.emit("raise", node, value=x)
                raise _Raise(x, node)
            return NTup(callee.ci, vals)
        if isinstance(callee, Cls) and not starkw and ((self.opts.get("instantiate") and self.opts["instantiate"](callee.ci)) or self.is_private_class(callee.ci)):
            n = self.__dict__.setdefault("_obj_counter", {})
            n[callee.ci.name] = n.get(callee.ci.name, 0) + 1
            o = Obj(callee.ci, {}, label=f"{callee.ci.name}#{n[callee.ci.name]}")
            self.emit("new-obj", node, obj=o, cls=callee.ci, args=args, kwargs=kwargs)
            init = callee.ci.find_method("__init__")
            if init is not None:
                self.run_function(Fn(init, o), args, kwargs, node)
            return o
        if isinstance(callee, Cls):
            hook = self.opts.get("construct")
            if hook is not None:
                r = hook(self, callee.ci, args, kwargs, node)
                if r is not None:
                    return r
            t = Term("new", callee.ci.name, tuple(args), kwt, hint=callee.ci, node=node)
            t2 = Term("call", callee, tuple(args), kwt, hint=callee.ci, node=node)
            ev = self.emit("call", node, term=t2, callee=callee, args=args, kwargs=kwargs, resolved=callee.ci, foreign=False, inlined=False, awaited=awaited, new=True)
            self.maybe_raise(ev)
            return t2
        t = Term("call", callee, tuple(args), kwt, node=node)
        if isinstance(callee, Term) and callee.op == "attr":
            t.pytype = METHOD_RESULT_TYPES.get(callee.args[1])
        hook = self.opts.get("call_hint")
        if hook is not None:
            t.hint = hook(callee, args, kwargs)
        ev = self.emit("call", node, term=t, callee=callee, args=args, kwargs=kwargs, resolved=None, foreign=True, inlined=False, awaited=awaited)
        self.maybe_raise(ev)
        eff = self.opts.get("call_effect")
        if eff is not None and isinstance(callee, Obj):
            # a rule's model of what an opaque callable (a user callback) does when it is called
            r = eff(self, callee, args, kwargs, ev)
            if r is not None:
                return r
        return t

    def _ensure_init_subclass(self, ci):
        """__init_subclass__ hooks run when the subclasses are created (at import): before the class-level state of such a
        hierarchy is consulted for the first time, the hook is run once for every subclass, in definition order."""
        root = None
        for k in reversed(ci.mro):
            if "__init_subclass__" in k.methods:
                root = k
                break
        if root is None:
            return
        done = self.__dict__.setdefault("_init_subclass_done", set())
        if root.qualname in done:
            return
        done.add(root.qualname)
        subs = sorted(root.all_subclasses(), key=lambda s: (s.module.name, s.node.lineno))
        n_ev = len(self.events)
        saved = self.opts.get("inline")
        try:
            for s in subs:
                hook = None
                for k in s.mro[1:]:
                    if "__init_subclass__" in k.methods:
                        hook = k.methods["__init_subclass__"]
                        break
                if hook is None:
                    continue
                kw = {}
                for name, expr in (s.keywords or {}).items():
                    if name not in (None, "metaclass"):
                        kw[name] = self.eval_in_module(s.module, expr)
                self.opts["inline"] = lambda fi, node, _s=saved: True if fi.name in ("__init_subclass__", "__init__") else (_s(fi, node) if _s else False)
                self.run_function(Fn(hook, Cls(s)), [], kw)
        finally:
            if saved is None:
                self.opts.pop("inline", None)
            else:
                self.opts["inline"] = saved
            del self.events[n_ev:]

    def _dispatch_target(self, callee, args):
        """functools.singledispatch(method): the implementation registered for the most specific class in the MRO of the
        first argument's class; the decorated function itself when none is registered (or the class is not known)."""
        fi = callee.fi
        if not args:
            return None
        table = (fi.cls.dispatch_impls if fi.cls is not None else fi.module.__dict__.get("dispatch_impls", {})).get(fi.name, [])
        if fi.cls is not None:
            # implementations registered in subclasses / base classes of the receiver
            recv = class_of(callee.self_val) if callee.self_val is not None else None
            for k in (recv.mro if recv is not None else []):
                for entry in k.dispatch_impls.get(fi.name, []):
                    if entry not in table:
                        table = table + [entry]
        arg = args[0]
        aci = arg.cls if isinstance(arg, Obj) else (arg.ci if isinstance(arg, NTup) else class_of(arg))
        if aci is None:
            if isinstance(arg, Const) or not table:
                return fi
            raise Undecided(f"single dispatch of {fi.name} on a value whose class is not known")
        best = None
        for expr, impl in table:
            try:
                k = self.eval_in_module(impl.module, expr)
            except Undecided:
                continue
            if isinstance(k, Cls) and k.ci in aci.mro:
                rank = aci.mro.index(k.ci)
                if best is None or rank < best[0]:
                    best = (rank, impl)
        return best[1] if best is not None else fi

    def is_private_class(self, ci) -> bool:
        """Private classes of the repository (single leading underscore) that only bundle behaviour of their user - context
        managers (__enter__/__exit__) - are instantiated like the code that uses them is inlined."""
        if self.opts.get("private_helpers") is False:
            return False
        n = ci.name
        if not (n.startswith("_") and not n.startswith("__") and ci.module.name.startswith(("indi.", "indilint_synthetic"))):
            return False
        if ci.find_method("__enter__") is not None and ci.find_method("__exit__") is not None:
            return True
        # small private strategy / step objects (no public role, not an exception class): created where they are used
        return self.opts.get("private_classes", True) and not any(b.name.endswith(("Exception", "Error")) for b in ci.mro)

    def _has_public_subclass(self, ci) -> bool:
        seen, todo = set(), list(ci.subclasses)
        while todo:
            s = todo.pop()
            if id(s) in seen:
                continue
            seen.add(id(s))
            if not s.name.startswith("_"):
                return True
            todo.extend(s.subclasses)
        return False

    def is_private_helper(self, fi) -> bool:
        """Private helpers of the repository (single leading underscore: methods, module functions, closures) are part of
        whatever function calls them: they are always inlined, so that extracting or inlining a helper does not change
        what a rule sees.  A rule that needs to observe one as a call names it in opts['keep_calls']."""
        if self.opts.get("private_helpers") is False:
            return False
        n = fi.name
        in_private_class = fi.cls is not None and fi.cls.name.startswith("_") and not fi.cls.name.startswith("__") and not (n.startswith("__") and n not in ("__init__", "__call__"))
        if in_private_class and not n.startswith("_") and self._has_public_subclass(fi.cls):
            # a private mixin / base class: its public methods are the public interface of the classes that inherit them
            in_private_class = False
        if not ((n.startswith("_") and not n.startswith("__")) or in_private_class):
            return False
        if not fi.module.name.startswith(("indi.", "indilint_synthetic")):
            return False
        keep = self.opts.get("keep_calls")
        if keep and (n in keep or fi in keep):
            return False
        return True

    def fold_re(self, callee, args, kwargs):
        """Constant folding of re.match/fullmatch/search/compile when pattern (and subject) are literals.
        Only the stdlib's pure regex functions are evaluated, on constants; no repository code runs."""
        import re as _re
        name = None
        pat = None
        rest = args
        if isinstance(callee, Foreign) and callee.dotted == "re.escape" and len(args) == 1 and isinstance(args[0], Const) and isinstance(args[0].v, str) and not kwargs:
            return Const(_re.escape(args[0].v))
        if isinstance(callee, Foreign) and callee.dotted in ("re.match", "re.fullmatch", "re.search", "re.compile"):
            name = callee.dotted.split(".")[1]
            if not args or not (isinstance(args[0], Const) and isinstance(args[0].v, str)):
                return None
            pat, rest = args[0].v, args[1:]
        elif isinstance(callee, Term) and callee.op == "attr" and isinstance(callee.args[0], Obj) and callee.args[0].label.startswith("re.Pattern") and callee.args[1] in ("match", "fullmatch", "search"):
            name = callee.args[1]
            pat = callee.args[0].attrs["pattern"].v
        else:
            return None
        if kwargs:
            return None
        if name == "compile":
            try:
                _re.compile(pat)
            except _re.error:
                return None
            return Obj(None, {"pattern": Const(pat)}, label=f"re.Pattern({pat!r})")
        if len(rest) != 1:
            return None
        subj = rest[0]
        if isinstance(subj, Const) and isinstance(subj.v, str):
            try:
                m = getattr(_re, name)(pat, subj.v)
            except _re.error:
                return None
            if m is None:
                return Const(None)
            return Obj(None, {"__groups__": Tup([Const(g) for g in m.groups()]), "__match0__": Const(m.group(0)), "__span__": Tup([Const(m.start()), Const(m.end())]), "__spans__": Tup([Tup([Const(m.start(i + 1)), Const(m.end(i + 1))]) for i in range(len(m.groups()))])}, label=f"re.Match({pat!r})")
        # symbolic subject: keep the pattern visible to rules
        t = Term("call", Term("attr", Obj(None, {"pattern": Const(pat)}, label=f"re.Pattern({pat!r})"), name), (subj,), ())
        t.regex = (pat, name, subj)
        self.emit("call", None, term=t, callee=callee, args=[subj], kwargs={}, resolved=None, foreign=True, inlined=False, awaited=False, regex=(pat, name, subj))
        return t

    def maybe_raise(self, ev):
        f = self.opts.get("call_may_raise")
        k = f(ev) if f is not None else None
        if k:
            if self.choose(2, "call-raise") == 1:
                x = Term("exc", k if isinstance(k, str) else None, f"raised by {show(ev.data['term'])[:60]}")
                self.emit("raise", ev.node, value=x, implicit=True)
                raise _Raise(x, ev.node)

    # models of builtins and container methods --------------------------------
    def call_builtin(self, name, args, kwargs, node, frame):
        if name not in ("next", "iter", "isinstance", "id", "type") and any(isinstance(a, Gen) for a in args):
            # a builtin that consumes its argument gets what the generator has left (any/all/sum/list/sorted/...)
            args = [self._gen_value(a.items) if isinstance(a, Gen) else a for a in args]
        if name == "sum" and len(args) in (1, 2) and not kwargs:
            items = self.concrete_iter(args[0])
            if items is not None and all(isinstance(x, Const) and isinstance(x.v, (int, float)) for x in items) and (len(args) == 1 or (isinstance(args[1], Const) and isinstance(args[1].v, (int, float)))):
                return Const(sum((x.v for x in items), args[1].v if len(args) == 2 else 0))
        if name in ("staticmethod", "classmethod") and len(args) == 1 and not kwargs:
            return args[0] if name == "staticmethod" else Term("classmethod", args[0])
        if name == "divmod" and len(args) == 2 and not kwargs:
            # divmod(a, b) == (a // b, a % b): the same terms (and interval facts) as the two operators
            return Tup([self.binop("FloorDiv", args[0], args[1], node), self.binop("Mod", args[0], args[1], node)])
        if name == "isinstance" and len(args) == 2:
            r = self.isinstance_model(args[0], args[1])
            if r is not None:
                return Const(r)
            t = Term("call", Builtin(name), tuple(args), ())
            return t
        if name == "cast" and len(args) == 2:
            return args[1]
        if name == "issubclass" and len(args) == 2:
            a, b = args
            if isinstance(a, Builtin) and isinstance(b, Cls):
                return Const(False)
            if isinstance(a, Cls) and isinstance(b, Cls):
                return Const(b.ci in a.ci.mro)
            if isinstance(a, Cls) and isinstance(b, Builtin) and b.name == "object":
                return Const(True)
        if name == "vars" and len(args) == 1:
            if isinstance(args[0], Obj):
                return Term("view", obj_dict(args[0]), "dict")
            if isinstance(args[0], Cls):
                return Term("view", self.class_dict(args[0].ci), "dict")
        if name == "id" and len(args) == 1 and not kwargs:
            # identity of an abstract object / container / class: a number that is the same for the same object and
            # different for different ones (the objects stay alive for the whole evaluation, so no number is reused)
            a0 = args[0]
            if isinstance(a0, (Obj, Lst, Dct, Tup, Cls, Fn)) or (isinstance(a0, Const) and (a0.v is None or isinstance(a0.v, bool))):
                table = self.__dict__.setdefault("_ids", {})
                key_ = ("const", a0.v) if isinstance(a0, Const) else (("cls", a0.ci.qualname) if isinstance(a0, Cls) else ("obj", id(a0)))
                if key_ not in table:
                    table[key_] = (len(table) + 1, a0)
                return Const(140000000000000 + 64 * table[key_][0])
        if name == "object" and not args and not kwargs:
            n_ = self.__dict__.setdefault("_obj_counter", {})
            n_["object"] = n_.get("object", 0) + 1
            return Obj(None, {"__closed__": Const(True)}, label=f"<object#{n_['object']}>")
        if name == "sorted" and len(args) == 1 and set(kwargs) <= {"key", "reverse"} and kwargs:
            items = self.concrete_iter(args[0])
            rev = kwargs.get("reverse", Const(False))
            if items is not None and isinstance(rev, Const):
                keyf = kwargs.get("key")
                ks = [self.apply(keyf, [x], {}, [], node, frame, False) if keyf is not None else x for x in items]
                if all(isinstance(k_, Const) and isinstance(k_.v, (str, int, float)) for k_ in ks) and len({type(k_.v) is str for k_ in ks}) <= 1:
                    order = sorted(range(len(items)), key=lambda i_: ks[i_].v, reverse=bool(rev.v))
                    return Lst([items[i_] for i_ in order])
        if name == "sorted" and len(args) == 1 and not kwargs:
            items = self.concrete_iter(args[0])
            if items is not None:
                def sk(x):
                    k = x.items[0] if isinstance(x, Tup) and x.items else x
                    return k.v if isinstance(k, Const) and isinstance(k.v, str) else None
                keys = [sk(x) for x in items]
                if all(k is not None for k in keys):
                    return Lst([x for _, x in sorted(zip(keys, items), key=lambda t: t[0])])
        if name == "dict" and len(args) <= 1:
            # dict(), dict(mapping), dict(iterable of pairs), each optionally with keyword items
            out = Dct()
            okd = True
            if args:
                src_ = args[0]
                if isinstance(src_, Dct):
                    for k_, v_ in src_.pairs:
                        out.set(k_, v_)
                else:
                    items = self.concrete_iter(src_)
                    if items is None:
                        okd = False
                    else:
                        for x in items:
                            if isinstance(x, (Tup, Lst)) and len(x.items) == 2:
                                out.set(x.items[0], x.items[1])
                            else:
                                okd = False
            if okd:
                for k_, v_ in kwargs.items():
                    out.set(Const(k_), v_)
                return out
        if name in ("frozenset", "set") and len(args) <= 1:
            if not args:
                return SetV([])
            items = self.concrete_iter(args[0])
            if items is not None:
                out = []
                for x in items:
                    if not any(same_value(x, y) is True for y in out):
                        out.append(x)
                return SetV(out)
        if name == "next" and 1 <= len(args) <= 2 and isinstance(args[0], Gen):
            r_ = args[0].pull()
            if r_ is not None:
                return r_[0]
            if len(args) == 2:
                return args[1]
            x = Term("exc", "StopIteration")
            self.emit("raise", node, value=x)
            raise _Raise(x, node)
        if name == "next" and 1 <= len(args) <= 2:
            items = self.concrete_iter(args[0])
            if items is not None:
                if items:
                    return items[0]
                if len(args) == 2:
                    return args[1]
                x = Term("exc", "StopIteration")
                self.emit("raise", node, value=x)
                raise _Raise(x, node)
        if name == "range" and 1 <= len(args) <= 3 and not kwargs and all(isinstance(x, Const) and isinstance(x.v, int) and not isinstance(x.v, bool) for x in args):
            r_ = range(*[x.v for x in args])
            if len(r_) <= 64:
                return Lst([Const(i_) for i_ in r_])
        if name == "map" and len(args) == 2 and not kwargs:
            items = self.concrete_iter(args[1])
            if items is not None:
                return Lst([self.apply(args[0], [x], {}, [], node, frame, False) for x in items])
        if name == "filter" and len(args) == 2 and not kwargs:
            items = self.concrete_iter(args[1])
            f_ = args[0]
            if items is not None:
                keep, decided = [], True
                for x in items:
                    if isinstance(f_, Term) and f_.op == "attr" and isinstance(f_.args[0], Const) and f_.args[0].v is None and f_.args[1] in ("__ne__", "__eq__"):
                        # filter(None.__ne__, xs): identity with None
                        isnone = (x.v is None) if isinstance(x, Const) else (False if isinstance(x, (Obj, Tup, Lst, Dct, Cls, Fn)) or (isinstance(x, Term) and x.pytype) else None)
                        t_ = None if isnone is None else (not isnone if f_.args[1] == "__ne__" else isnone)
                    elif isinstance(f_, Const) and f_.v is None:
                        t_ = self.truth_of(x)
                    else:
                        t_ = self.truth_of(self.apply(f_, [x], {}, [], node, frame, False))
                    if t_ is None:
                        decided = False
                        break
                    if t_:
                        keep.append(x)
                if decided:
                    return Lst(keep)
        if name == "iter" and len(args) == 1 and self.concrete_iter(args[0]) is not None:
            return Lst(self.concrete_iter(args[0]))
        if name == "zip" and len(args) >= 1:
            cols = [self.concrete_iter(a) for a in args]
            if all(c is not None for c in cols):
                return Lst([Tup(list(t)) for t in zip(*cols)])
        if name == "reversed" and len(args) == 1:
            items = self.concrete_iter(args[0])
            if items is not None:
                return Lst(list(reversed(items)))
        if name == "enumerate" and len(args) == 1:
            items = self.concrete_iter(args[0])
            if items is not None:
                return Lst([Tup([Const(i), x]) for i, x in enumerate(items)])
        if name == "len" and len(args) == 1:
            a = args[0]
            if isinstance(a, (Tup, Lst)) and not any(isinstance(x, Term) and x.op == "star" for x in a.items):
                return Const(len(a.items))
            if isinstance(a, Dct):
                return Const(len(a.pairs))
            if isinstance(a, Const) and isinstance(a.v, (str, bytes)):
                return Const(len(a.v))
            return Term("call", Builtin(name), tuple(args), (), pytype="int")
        if name == "getattr" and len(args) in (2, 3) and isinstance(args[1], Const):
            base, attr = args[0], args[1].v
            if isinstance(base, Obj):
                if attr in base.attrs:
                    return base.attrs[attr]
                if base.cls is not None and base.cls.has_member(attr):
                    return self.get_attr(base, attr, node, frame)
                if len(args) == 3 and (base.attrs.get("__closed__") is not None or base.cls is not None):
                    return args[2]  # annotation-only names do not exist at run time
            if len(args) == 2 and isinstance(base, Obj) and base.attrs.get("__closed__") is not None and not (base.cls is not None and base.cls.has_member(attr)):
                x = Term("exc", "AttributeError", attr)
                self.emit("raise", node, value=x)
                raise _Raise(x, node)
            if len(args) == 2:
                return self.get_attr(base, attr, node, frame)
            ci = class_of(base)
            hv = self.heap.get((show(base), attr))
            if hv is not None:
                return hv
            return Term("call", Builtin(name), tuple(args), ())
        if name == "hasattr" and len(args) == 2 and isinstance(args[1], Const):
            base, attr = args[0], args[1].v
            if isinstance(base, Obj):
                if attr in base.attrs:
                    return Const(True)
                if base.cls is not None and base.cls.has_member(attr):
                    return Const(True)
                if base.attrs.get("__closed__") is not None:
                    return Const(False)
            return Term("call", Builtin(name), tuple(args), ())
        if name == "setattr" and len(args) == 3 and isinstance(args[1], Const):
            self.store_attr(args[0], args[1].v, args[2], node, frame)
            return Const(None)
        if name in ("tuple", "list"):
            if not args:
                return Tup([]) if name == "tuple" else Lst([])
            items = self.concrete_iter(args[0])
            if items is not None:
                return Tup(items) if name == "tuple" else Lst(items)
            if isinstance(args[0], Term) and args[0].op == "comp":
                a = args[0]
                return Term("comp", a.args[0], a.args[1], a.args[2], name, node=a.node)
            return Term("call", Builtin(name), tuple(args), ())
        if name == "dict":
            if not args:
                return Dct([(Const(k), v) for k, v in kwargs.items()])
            return Term("call", Builtin(name), tuple(args), tuple(kwargs.items()))
        if name == "str" and len(args) == 1:
            if isinstance(args[0], Const) and isinstance(args[0].v, (str, int, float)) and not isinstance(args[0].v, bool):
                # str() of a float is its shortest round-trip repr (exponent form below 1e-4 and from 1e16 on)
                return Const(str(args[0].v))
            return Term("call", Builtin(name), tuple(args), ())
        if name == "bool" and len(args) == 1:
            t = self.truth_of(args[0])
            if t is not None:
                return Const(t)
        if name in ("any", "all") and len(args) == 1:
            items = self.concrete_iter(args[0])
            if items is not None:
                ts = [self.truth_of(x) for x in items]
                if all(t is not None for t in ts):
                    return Const(any(ts) if name == "any" else all(ts))
        if name in ("min", "max") and len(args) == 1 and set(kwargs) <= {"default"}:
            items = self.concrete_iter(args[0])
            if items is not None:
                if not items:
                    if "default" in kwargs:
                        return kwargs["default"]
                    self.emit("raise", node, value=Term("exc", "ValueError"))
                    raise _Raise(Term("exc", "ValueError"), node)
                if all(isinstance(x, Const) and isinstance(x.v, (int, float, str)) for x in items):
                    vs = [x.v for x in items]
                    return Const(min(vs) if name == "min" else max(vs))
        if name in ("min", "max") and len(args) == 2:
            if all(isinstance(a, Const) for a in args):
                return Const(min(args[0].v, args[1].v) if name == "min" else max(args[0].v, args[1].v))
            if all((isinstance(a, Const) and isinstance(a.v, int)) or (isinstance(a, Term) and a.pytype == "int") for a in args):
                t = Term("call", Builtin(name), tuple(args), (), pytype="int")
                los, his = [], []
                for a in args:
                    if isinstance(a, Const):
                        los.append(a.v); his.append(a.v)
                    else:
                        lo_, hi_ = self.bounds_of(a)
                        los.append(lo_); his.append(hi_)
                if name == "min":
                    lo = min(los) if all(x is not None for x in los) else None
                    known = [x for x in his if x is not None]
                    hi = min(known) if known else None
                else:
                    known = [x for x in los if x is not None]
                    lo = max(known) if known else None
                    hi = max(his) if all(x is not None for x in his) else None
                if lo is not None or hi is not None:
                    self.__dict__.setdefault("_bounds", {})[id(t)] = (t, lo, hi)
                return t
        if name == "int" and len(args) == 1 and not isinstance(args[0], Const):
            return Term("call", Builtin(name), tuple(args), (), pytype="int")
        if name == "float" and len(args) == 1 and not isinstance(args[0], Const):
            return Term("call", Builtin(name), tuple(args), (), pytype="float")
        if name in ("int", "float") and len(args) == 1 and isinstance(args[0], Const) and isinstance(args[0].v, (str, int, float)) and not isinstance(args[0].v, bool):
            try:
                return Const(int(args[0].v) if name == "int" else float(args[0].v))
            except (ValueError, OverflowError):
                x = Term("exc", "ValueError", f"{name}({args[0].v!r})")
                self.emit("raise", node, value=x)
                raise _Raise(x, node)
        if name == "callable" and len(args) == 1 and isinstance(args[0], (Fn, Cls)):
            return Const(True)
        if name in ("Exception", "ValueError", "TypeError", "KeyError", "IndexError", "AssertionError", "NotImplementedError", "AttributeError", "BaseException"):
            return Term("exc", name, tuple(show(a) for a in args))
        return Term("call", Builtin(name), tuple(args), tuple(kwargs.items()))

    def isinstance_model(self, v, klass):
        ks = klass.items if isinstance(klass, Tup) else [klass]
        any_unknown = False
        for k in ks:
            r = self._isinstance1(v, k)
            if r is True:
                return True
            if r is None:
                any_unknown = True
        return None if any_unknown else False

    def _isinstance1(self, v, k):
        if isinstance(v, NTup):
            if isinstance(k, Cls):
                return k.ci in v.ci.mro
            if isinstance(k, Builtin):
                return k.name in ("tuple", "object")
        if isinstance(k, Cls):
            if isinstance(v, Obj) and v.cls is not None:
                return k.ci in v.cls.mro
            if isinstance(v, Obj) and v.cls is None and self.opts.get("closed_world", True):
                return False  # an opaque symbol is not an instance of a repository class
            if isinstance(v, (Lst, Tup, Dct, Fn, Cls)):
                return False
            if isinstance(v, Const):
                return False
            ci = class_of(v)
            if ci is not None:
                if k.ci in ci.mro:
                    return True
                if isinstance(v, Term) and v.op in ("call", "new") and v.hint is ci and isinstance(v.args[0], Cls):
                    return False  # freshly constructed: exact class known
                # hint is an upper bound: could be a subclass that is a k
                if any(k.ci in s.mro for s in ci.all_subclasses()):
                    return None
                if self.opts.get("closed_world", True):
                    return False
                return None
            return None
        if isinstance(k, Builtin):
            if isinstance(v, Term) and v.pytype and k.name in ("str", "int", "float", "bytes", "bool", "NoneType"):
                return v.pytype == k.name or (k.name == "int" and v.pytype == "bool")
            if isinstance(v, Const):
                tname = type(v.v).__name__
                if k.name == tname:
                    return True
                if k.name == "int" and tname == "bool":
                    return True
                if k.name in ("str", "int", "float", "bytes", "bool", "NoneType"):
                    return False
            if isinstance(v, (Obj, Cls)) and k.name in ("str", "int", "float", "bytes", "bool", "NoneType", "list", "tuple", "dict"):
                return False
            if isinstance(v, Lst):
                return k.name == "list"
            if isinstance(v, SetV):
                return k.name in ("set", "frozenset")
            if isinstance(v, Tup):
                return k.name == "tuple"
            if isinstance(v, Dct):
                return k.name == "dict"
            return None
        return None

    def call_method_model(self, base, meth, args, kwargs, node):
        """Models of dict/list/str methods on abstract containers and constants."""
        if isinstance(base, Term) and base.op == "view" and base.args[1] == "dict":
            base = base.args[0]
            owner = getattr(base, "owner", None)
            if owner is not None and meth in ("setdefault", "update", "pop", "clear", "__setitem__", "__delitem__"):
                # vars(obj) / obj.__dict__ is the live attribute table
                keys_ok = lambda ks: all(isinstance(k, Const) and isinstance(k.v, str) for k in ks)
                if meth == "setdefault" and len(args) == 2 and keys_ok([args[0]]):
                    if args[0].v not in owner.attrs:
                        owner.attrs[args[0].v] = args[1]
                        self.emit("store", node, target=Term("attr", owner, args[0].v), value=args[1], base=owner, attr=args[0].v)
                    return owner.attrs[args[0].v]
                if meth == "__setitem__" and len(args) == 2 and keys_ok([args[0]]):
                    owner.attrs[args[0].v] = args[1]
                    self.emit("store", node, target=Term("attr", owner, args[0].v), value=args[1], base=owner, attr=args[0].v)
                    return Const(None)
                if meth == "update" and len(args) <= 1:
                    src = args[0] if args else Dct([])
                    if isinstance(src, Term) and src.op == "view" and src.args[1] == "dict":
                        src = src.args[0]
                    if isinstance(src, Dct) and keys_ok([k for k, _ in src.pairs]):
                        for k, v in list(src.pairs) + [(Const(k_), v_) for k_, v_ in kwargs.items()]:
                            owner.attrs[k.v] = v
                            self.emit("store", node, target=Term("attr", owner, k.v), value=v, base=owner, attr=k.v)
                        return Const(None)
                if meth == "pop" and 1 <= len(args) <= 2 and keys_ok([args[0]]):
                    if args[0].v in owner.attrs:
                        return owner.attrs.pop(args[0].v)
                    if len(args) == 2:
                        return args[1]
                    x = Term("exc", "KeyError")
                    self.emit("raise", node, value=x)
                    raise _Raise(x, node)
                raise Undecided(f"write through an instance __dict__ outside the modelled forms ({meth})")
            if meth not in ("items", "keys", "values", "get"):
                return NotImplemented
        if isinstance(base, Obj) and base.label.startswith("re.Match"):
            if meth == "groups" and not args:
                return base.attrs["__groups__"]
            if meth in ("start", "end", "span") and "__span__" in base.attrs and len(args) <= 1 and all(isinstance(a, Const) and isinstance(a.v, int) for a in args):
                gi = args[0].v if args else 0
                sp = base.attrs["__span__"] if gi == 0 else (base.attrs["__spans__"].items[gi - 1] if 1 <= gi <= len(base.attrs["__spans__"].items) else None)
                if sp is not None:
                    return sp if meth == "span" else sp.items[0 if meth == "start" else 1]
            if meth == "group" and not args:
                return base.attrs["__match0__"]
            if meth == "group" and len(args) == 1 and isinstance(args[0], Const) and isinstance(args[0].v, int):
                g = base.attrs["__groups__"].items
                if args[0].v == 0:
                    return base.attrs["__match0__"]
                if 1 <= args[0].v <= len(g):
                    return g[args[0].v - 1]
        if isinstance(base, Dct):
            if meth == "get" and 1 <= len(args) <= 2:
                v = base.get(args[0])
                if v is not None:
                    return v
                decided = all(same_value(k, args[0]) is False for k, _ in base.pairs)
                if decided:
                    return args[1] if len(args) == 2 else Const(None)
                return Term("call", Term("attr", base, meth), tuple(args), ())
            if meth in ("items", "keys", "values") and not args:
                return Term("view", base, meth)
            if meth == "pop" and args:
                v = base.get(args[0])
                if v is None and len(args) == 1 and all(same_value(k, args[0]) is False for k, _ in base.pairs):
                    # pop of a key that is not there, without a default, raises
                    x = Term("exc", "KeyError")
                    self.emit("raise", node, value=x)
                    raise _Raise(x, node)
                base.delete(args[0])
                self.emit("del", node, base=base, key=args[0])
                return v if v is not None else (args[1] if len(args) > 1 else Term("exc", "KeyError"))
            if meth == "setdefault" and len(args) == 2:
                v = base.get(args[0])
                if v is None:
                    base.set(args[0], args[1])
                    return args[1]
                return v
            if meth == "update" and len(args) <= 1:
                pairs = None
                if not args:
                    pairs = []
                elif isinstance(args[0], Dct):
                    pairs = list(args[0].pairs)
                else:
                    items = self.concrete_iter(args[0])
                    if items is not None and all(isinstance(x, (Tup, Lst)) and len(x.items) == 2 for x in items):
                        pairs = [(x.items[0], x.items[1]) for x in items]
                if pairs is not None:
                    for k, v in pairs:
                        base.set(k, v)
                    for k, v in kwargs.items():
                        base.set(Const(k), v)
                    return Const(None)
            if meth == "copy" and not args:
                if isinstance(base, DDct):
                    return DDct(base.kind, [(k, v) for k, v in base.pairs])
                return Dct([(k, v) for k, v in base.pairs])
        if isinstance(base, SetV):
            has = lambda x: [same_value(x, y) for y in base.items]
            if meth == "add" and len(args) == 1:
                if not any(r is True for r in has(args[0])):
                    base.items.append(args[0])
                    self.emit("mutate", node, base=base, how="add", value=args[0])
                return Const(None)
            if meth in ("discard", "remove") and len(args) == 1:
                rs = has(args[0])
                if any(r is True for r in rs):
                    i_ = [r is True for r in rs].index(True)
                    x = base.items.pop(i_)
                    self.emit("mutate", node, base=base, how=meth, value=x, removed=x)
                    return Const(None)
                if all(r is False for r in rs):
                    if meth == "remove":
                        x = Term("exc", "KeyError")
                        self.emit("raise", node, value=x)
                        raise _Raise(x, node)
                    return Const(None)
                raise Undecided(f"set.{meth} of an element whose membership is not decided")
            if meth == "clear" and not args:
                del base.items[:]
                self.emit("mutate", node, base=base, how="clear", value=None)
                return Const(None)
            if meth == "copy" and not args:
                return SetV(list(base.items))
            if meth in ("update", "union", "intersection", "difference", "issubset", "issuperset", "isdisjoint", "difference_update", "intersection_update") and len(args) == 1:
                other = self.concrete_iter(args[0])
                if other is not None:
                    def member(x, xs):
                        rs_ = [same_value(x, y) for y in xs]
                        if any(r is True for r in rs_):
                            return True
                        if all(r is False for r in rs_):
                            return False
                        raise Undecided(f"set.{meth}: membership of an element is not decided")
                    if meth in ("update", "union"):
                        tgt = base if meth == "update" else SetV(list(base.items))
                        for x in other:
                            if not member(x, tgt.items):
                                tgt.items.append(x)
                        return Const(None) if meth == "update" else tgt
                    if meth in ("intersection", "intersection_update", "difference", "difference_update"):
                        keep = [x for x in base.items if member(x, other) == meth.startswith("intersection")]
                        if meth.endswith("_update"):
                            base.items[:] = keep
                            return Const(None)
                        return SetV(keep)
                    if meth == "issubset":
                        return Const(all(member(x, other) for x in base.items))
                    if meth == "issuperset":
                        return Const(all(member(x, base.items) for x in other))
                    if meth == "isdisjoint":
                        return Const(not any(member(x, other) for x in base.items))
        if isinstance(base, Lst):
            if meth == "append" and len(args) == 1:
                base.items.append(args[0])
                self.emit("mutate", node, base=base, how="append", value=args[0])
                return Const(None)
            if meth == "extend" and len(args) == 1:
                items = self.concrete_iter(args[0])
                if items is not None:
                    base.items.extend(items)
                    self.emit("mutate", node, base=base, how="extend", value=args[0])
                    return Const(None)
            if meth == "remove" and len(args) == 1:
                # list.remove deletes the first item that is the argument or compares equal to it (__eq__ of
                # repository classes is honoured where it is analysable)
                def _eq(x, y):
                    if x is y:
                        return True
                    if isinstance(x, Obj) and x.cls is not None and x.cls.find_method("__eq__") is not None:
                        return self.truth_of(self.compare("Eq", x, y, node))
                    return same_value(x, y)
                verdicts = []
                for i, x in enumerate(base.items):
                    r = _eq(x, args[0])
                    verdicts.append(r)
                    if r is True:
                        del base.items[i]
                        self.emit("mutate", node, base=base, how="remove", value=args[0], removed=x)
                        return Const(None)
                    if r is None:
                        break
                if verdicts and all(v is False for v in verdicts) and len(verdicts) == len(base.items):
                    self.emit("raise", node, value=Term("exc", "ValueError"))
                    raise _Raise(Term("exc", "ValueError"), node)
            if meth == "copy" and not args:
                return Lst(list(base.items))
            if meth == "insert" and len(args) == 2 and isinstance(args[0], Const) and isinstance(args[0].v, int):
                base.items.insert(args[0].v, args[1])
                self.emit("mutate", node, base=base, how="insert", value=args[1])
                return Const(None)
            if meth == "pop" and len(args) <= 1 and all(isinstance(a, Const) and isinstance(a.v, int) for a in args):
                i_ = args[0].v if args else -1
                if -len(base.items) <= i_ < len(base.items):
                    x = base.items.pop(i_)
                    self.emit("mutate", node, base=base, how="pop", value=x, removed=x)
                    return x
                self.emit("raise", node, value=Term("exc", "IndexError"))
                raise _Raise(Term("exc", "IndexError"), node)
            if meth == "clear" and not args:
                del base.items[:]
                self.emit("mutate", node, base=base, how="clear", value=Const(None))
                return Const(None)
            if meth == "reverse" and not args:
                base.items.reverse()
                self.emit("mutate", node, base=base, how="reverse", value=Const(None))
                return Const(None)
            if meth in ("index", "count") and len(args) == 1:
                eqs = [True if x is args[0] else same_value(x, args[0]) for x in base.items]
                if all(e_ is not None for e_ in eqs):
                    if meth == "count":
                        return Const(sum(1 for e_ in eqs if e_))
                    if any(eqs):
                        return Const(eqs.index(True))
                    self.emit("raise", node, value=Term("exc", "ValueError"))
                    raise _Raise(Term("exc", "ValueError"), node)
        if isinstance(base, Const) and isinstance(base.v, str) and meth == "join" and len(args) == 1 and not kwargs:
            items = self.concrete_iter(args[0])
            if items is not None and all(isinstance(x, Const) and isinstance(x.v, str) for x in items):
                return Const(base.v.join(x.v for x in items))
            if items is not None and items and all((isinstance(x, Const) and isinstance(x.v, str)) or (isinstance(x, Term) and x.op == "fstr") for x in items) and any(isinstance(x, Term) for x in items):
                parts = []
                for i_, x in enumerate(items):
                    if i_:
                        parts.append(base.v)
                    parts.extend(x.args if isinstance(x, Term) else [x.v])
                return Term("fstr", *parts)
        if isinstance(base, Const) and isinstance(base.v, str) and meth == "format" and (args or kwargs) and not all(isinstance(a, Const) for a in list(args) + list(kwargs.values())):
            # a constant template filled with values that are not all constants is the formatted string an f-string
            # with the same fields would be (simple field names and positions only)
            import string as _string
            try:
                fields = list(_string.Formatter().parse(base.v))
            except ValueError:
                fields = None
            parts = []
            auto = 0
            ok_ = fields is not None
            for lit, name_, spec_, conv_ in (fields or []):
                if lit:
                    parts.append(lit)
                if name_ is None:
                    continue
                if conv_ is not None or (spec_ and "{" in spec_):
                    ok_ = False
                    break
                if name_ == "":
                    name_ = str(auto)
                    auto += 1
                if name_.isdigit():
                    val_ = args[int(name_)] if int(name_) < len(args) else None
                else:
                    val_ = kwargs.get(name_) if name_.isidentifier() else None
                if val_ is None:
                    ok_ = False
                    break
                if isinstance(val_, Const) and not spec_ and isinstance(val_.v, (str, int)) and not isinstance(val_.v, bool):
                    parts.append(str(val_.v))
                elif isinstance(val_, Term) and val_.op == "fstr" and not spec_:
                    parts.extend(val_.args)
                else:
                    parts.append((val_, spec_ or ""))
            if ok_:
                merged = []
                for x in parts:
                    if isinstance(x, str) and merged and isinstance(merged[-1], str):
                        merged[-1] += x
                    else:
                        merged.append(x)
                if all(isinstance(x, str) for x in merged):
                    return Const("".join(merged))
                return Term("fstr", *merged)
        if isinstance(base, Const) and isinstance(base.v, str) and meth in ("startswith", "endswith") and len(args) == 1 and isinstance(args[0], (Tup, Lst)) and all(isinstance(x, Const) and isinstance(x.v, str) for x in args[0].items):
            return Const(getattr(base.v, meth)(tuple(x.v for x in args[0].items)))
        if isinstance(base, Const) and isinstance(base.v, bytes) and all(isinstance(a, Const) for a in args) and not kwargs and meth in ("decode", "hex", "strip", "startswith", "endswith", "find", "count"):
            try:
                return Const(getattr(base.v, meth)(*[a.v for a in args]))
            except Exception:
                return NotImplemented
        if isinstance(base, Const) and isinstance(base.v, str) and all(isinstance(a, Const) for a in args) and not kwargs:
            if meth in ("strip", "lower", "upper", "startswith", "endswith", "find", "rfind", "split", "format", "lstrip", "rstrip", "encode", "replace", "join", "count", "index", "rindex", "isdigit", "isspace", "isalpha", "title", "capitalize", "splitlines", "partition", "rpartition", "zfill", "ljust", "rjust", "center"):
                try:
                    r = getattr(base.v, meth)(*[a.v for a in args])
                    if isinstance(r, list):
                        return Lst([Const(x) for x in r])
                    if isinstance(r, tuple):
                        return Tup([Const(x) for x in r])
                    return Const(r)
                except Exception:
                    return NotImplemented
        return NotImplemented


class _NoFork(Exception):
    pass


METHOD_RESULT_TYPES = {
    "find": "int", "rfind": "int", "index": "int", "rindex": "int", "count": "int", "tell": "int",
    "getvalue": "str", "strip": "str", "lstrip": "str", "rstrip": "str", "lower": "str", "upper": "str",
    "decode": "str", "encode": "bytes", "startswith": "bool", "endswith": "bool", "is_set": "bool", "isdigit": "bool",
    "hexdigest": "str", "join": "str", "format": "str", "replace": "str",
}


EXC_PARENTS = {
    "KeyError": ("LookupError",),
    "IndexError": ("LookupError",),
    "AssertionError": (),
    "ValueError": (),
    "TypeError": (),
    "ParseError": ("SyntaxError",),
}


def exc_kind(v) -> Optional[str]:
    if isinstance(v, Term):
        if v.op == "exc":
            return v.args[0]
        if v.op == "call":
            c = v.args[0]
            if isinstance(c, Builtin):
                return c.name
            if isinstance(c, Cls):
                return c.ci.name
            if isinstance(c, Foreign):
                return c.dotted.split(".")[-1]
    if isinstance(v, Builtin):
        return v.name
    return None


def obj_dict(o: "Obj") -> Dct:
    d = Dct([(Const(k), v) for k, v in o.attrs.items() if not k.startswith("__")], label=f"{o.label}.__dict__")
    d.owner = o  # an instance's __dict__ is its attribute table: writes through it are attribute stores
    return d


_modset_cache: Dict[int, frozenset] = {}


def modset(p: Program, fi: FunctionInfo, _stack=()) -> frozenset:
    """Attributes of ``self`` that ``fi`` (or the self-methods / property setters it calls,
    transitively) may store: a syntactic may-modify summary."""
    if id(fi) in _modset_cache:
        return _modset_cache[id(fi)]
    if fi in _stack or fi.cls is None:
        return frozenset()
    params = fi.params()
    if not params:
        return frozenset()
    me = params[0]
    out = set()
    for n in ast.walk(fi.node):
        tgts = []
        if isinstance(n, ast.Assign):
            tgts = n.targets
        elif isinstance(n, (ast.AugAssign, ast.AnnAssign)):
            tgts = [n.target]
        elif isinstance(n, ast.Delete):
            tgts = n.targets
        for t in tgts:
            for sub in ast.walk(t):
                if isinstance(sub, ast.Attribute) and isinstance(sub.value, ast.Name) and sub.value.id == me and isinstance(sub.ctx, (ast.Store, ast.Del)):
                    out.add(sub.attr)
                    st = fi.cls.find_setter(sub.attr)
                    if st is not None:
                        out |= modset(p, st, _stack + (fi,))
        if isinstance(n, ast.Call) and isinstance(n.func, ast.Attribute) and isinstance(n.func.value, ast.Name) and n.func.value.id == me:
            for c in [fi.cls] + fi.cls.all_subclasses():
                m = c.find_method(n.func.attr)
                if m is not None:
                    out |= modset(p, m, _stack + (fi,))
    res = frozenset(out)
    if not _stack:
        _modset_cache[id(fi)] = res
    return res


def class_of(v) -> Optional[ClassInfo]:
    if v is None:
        return None
    if isinstance(v, Obj):
        return v.cls
    if isinstance(v, Term):
        return v.hint
    return None


def to_value(cv) -> Value:
    if isinstance(cv, ClassInfo):
        return Cls(cv)
    if isinstance(cv, tuple):
        return Tup([to_value(x) for x in cv])
    if isinstance(cv, type):
        return Builtin(cv.__name__)
    if isinstance(cv, Value):
        return cv
    return Const(cv)


def _load(target):
    t = ast.parse(ast.unparse(target), mode="eval").body
    ast.copy_location(t, target)
    for n in ast.walk(t):
        ast.copy_location(n, target)
    return t


_nonlocal_cache: Dict[int, set] = {}


def _declared_nonlocal(fnode, name) -> bool:
    s = _nonlocal_cache.get(id(fnode))
    if s is None:
        s = set()
        for n in ast.walk(fnode):
            if isinstance(n, (ast.Nonlocal, ast.Global)):
                s.update(n.names)
        _nonlocal_cache[id(fnode)] = s
    return name in s


# --------------------------------------------------------------------------- driver


_STEPSTAT = [0]


def explore(program: Program, run: Callable[[Interp], Optional[Value]], opts=None, max_paths=4096) -> List[Path]:
    """Enumerate all paths of ``run`` (a closure that sets up abstract inputs and calls
    ``interp.run_function``) by depth-first replay over the decision tree."""
    opts = dict(opts or {})
    paths: List[Path] = []
    prefix: List[int] = []
    total_steps = 0
    budget = opts.get("max_total_steps", 4_000_000)
    while True:
        it = Interp(program, prefix, dict(opts))
        p = Path()
        try:
            v = run(it)
            if isinstance(v, Gen):
                v = it._gen_value(v.items)
            p.outcome, p.value = "return", v
        except _Return as r:
            p.outcome, p.value = "return", r.value
        except _Raise as r:
            p.outcome, p.value = "raise", r.value
        except _Truncate:
            p.outcome = "truncated"
        except (_Break, _Continue):
            it.close_generators()
            raise Undecided("break/continue outside loop")
        except BaseException:
            it.close_generators()
            raise
        it.close_generators()
        p.events = it.events
        p.decisions = list(it.taken)
        p.interp = it
        paths.append(p)
        total_steps += it.steps
        if os.environ.get("INDILINT_STEPSTAT") and total_steps > _STEPSTAT[0]:
            _STEPSTAT[0] = total_steps
        if total_steps > budget:
            # an exploration that does not converge is "not decided" - never a check that runs for an hour
            raise Undecided(f"exploration budget exhausted ({total_steps} steps over {len(paths)} paths)")
        if len(paths) > max_paths:
            raise Undecided(f"more than {max_paths} paths")
        # next prefix
        taken = it.taken
        i = len(taken) - 1
        while i >= 0 and taken[i][0] >= taken[i][1] - 1:
            i -= 1
        if i < 0:
            break
        prefix = [c for c, _ in taken[:i]] + [taken[i][0] + 1]
    return paths


def run_method(program: Program, fi: FunctionInfo, self_val=None, args=None, kwargs=None, opts=None, max_paths=4096, closure=None) -> List[Path]:
    """Explore one function with symbolic parameters (or the given abstract arguments)."""

    def run(it: Interp):
        a = fi.node.args
        names = [x.arg for x in a.posonlyargs + a.args]
        sv = self_val
        argv = list(args) if args is not None else None
        if fi.cls is not None and fi.kind in ("method", "getter", "setter") and sv is None:
            sv = Term("param", names[0] if names else "self", hint=fi.cls)
        if argv is None:
            skip = 1 if (sv is not None or fi.kind == "classmethod") else 0
            argv = []
            for n in names[skip:]:
                argv.append(Term("param", n))
        return it.run_function(Fn(fi, sv, closure=closure), argv, dict(kwargs or {}))

    return explore(program, run, opts, max_paths)
