"""Entry point:  ./check <ID> [--tier quick|thorough] [--explain <replay.json>]"""
from __future__ import annotations

import argparse
import importlib
import json
import os
import sys


def main(argv=None):
    ap = argparse.ArgumentParser(prog="check")
    ap.add_argument("prop")
    ap.add_argument("--tier", default=os.environ.get("VERIF_TIER", "quick"), choices=["quick", "thorough"])
    ap.add_argument("--explain", default=None, help="replay file written by an earlier run")
    ap.add_argument("--repo", default=None)
    a = ap.parse_args(argv)
    if a.repo:
        os.environ["INDILINT_REPO"] = a.repo
        from . import model
        model.REPO = a.repo
    try:
        seed = int(os.environ.get("VERIF_SEED", "0"))
    except ValueError:
        seed = 0
    prop = a.prop.upper()
    try:
        mod = importlib.import_module(f"indilint.rules.{prop.lower()}")
    except ImportError as e:
        print(f"ANALYSIS-ERROR property={prop}: no rule module ({e})")
        return 2
    from .report import run_property

    if a.explain:
        with open(a.explain) as f:
            rep = json.load(f)
        print(f"replaying {rep.get('rule')} on {rep.get('instance')} ({rep.get('at')}): {rep.get('detail')}")
        status = run_property(prop, mod, "thorough", seed, explain=a.explain)
        return status
    return run_property(prop, mod, a.tier, seed)


def guarded_main():
    try:
        return main()
    except SystemExit:
        raise
    except BaseException:  # a traceback must never look like a violation (exit 1)
        import traceback
        print(f"ANALYSIS-ERROR: check driver failed\n{traceback.format_exc()}")
        return 2


if __name__ == "__main__":
    sys.exit(guarded_main())
