"""Verdict bookkeeping, known-findings matching, evidence and replay files."""
from __future__ import annotations

import ast
import json
import os
import time
import traceback
from typing import List, Optional

from .model import AnalysisError, Program, Undecided, stmt_text

VERIF = os.path.dirname(os.path.dirname(os.path.abspath(__file__)))
EVIDENCE_DIR = os.environ.get("INDILINT_EVIDENCE_DIR") or os.path.join(VERIF, "evidence")
REPLAY_DIR = os.path.join(EVIDENCE_DIR, "replay")
KNOWN_FILE = os.path.join(VERIF, "known_findings.json")

HOLDS, VIOLATED, UNDECIDED, ERROR = "HOLDS", "VIOLATED", "UNDECIDED", "ERROR"


class Result:
    def __init__(self, rule, instance, verdict, detail="", file=None, line=None, text=None, witness=None, extra=None):
        self.rule = rule
        self.instance = instance  # qualified construct the obligation is about
        self.verdict = verdict
        self.detail = detail
        self.file = file
        self.line = line
        self.text = text  # normalised statement text / witness used in the finding key
        self.witness = witness
        self.extra = extra or {}
        self.known = None

    @property
    def key(self):
        return f"{self.rule}|{self.instance}|{self.text or ''}"

    def to_json(self):
        d = {"rule": self.rule, "instance": self.instance, "verdict": self.verdict}
        if self.detail:
            d["detail"] = self.detail
        if self.file:
            d["at"] = f"{self.file}:{self.line}" if self.line else self.file
        if self.text:
            d["text"] = self.text
        if self.witness is not None:
            d["witness"] = self.witness
        if self.extra:
            d.update(self.extra)
        return d


class Ctx:
    """What a rule sees: the program model plus verdict recording."""

    def __init__(self, prop_id: str, program: Program, tier: str):
        self.prop = prop_id
        self.p = program
        self.tier = tier
        self.results: List[Result] = []
        self.samples: List[object] = []
        self.counters = {}
        self.notes: List[str] = []
        self.current_rule = None
        self.paths_enumerated = 0
        self.exhaustive_domains: List[str] = []

    # -- locations ---------------------------------------------------------
    def _loc(self, node=None, fi=None, module=None, ci=None):
        file = line = None
        if fi is not None:
            file = fi.module.relpath
            line = fi.node.lineno
        if ci is not None:
            file = ci.module.relpath
            line = ci.node.lineno
        if module is not None:
            file = module.relpath
        if node is not None and getattr(node, "lineno", None):
            line = node.lineno
        return file, line

    # -- verdicts ----------------------------------------------------------
    def holds(self, rule, instance, detail="", node=None, fi=None, module=None, ci=None, **extra):
        file, line = self._loc(node, fi, module, ci)
        self.results.append(Result(rule, instance, HOLDS, detail, file, line, extra=extra))

    def violated(self, rule, instance, what, node=None, fi=None, module=None, ci=None, text=None, witness=None, **extra):
        file, line = self._loc(node, fi, module, ci)
        if text is None and node is not None:
            text = stmt_text(node)
        for r in self.results:
            if r.verdict == VIOLATED and r.rule == rule and r.instance == instance and r.text == text:
                return
        self.results.append(Result(rule, instance, VIOLATED, what, file, line, text=text, witness=witness, extra=extra))

    def undecided(self, rule, instance, why, node=None, fi=None, module=None, ci=None):
        file, line = self._loc(node, fi, module, ci)
        self.results.append(Result(rule, instance, UNDECIDED, why, file, line))

    def check(self, cond: bool, rule, instance, ok_detail="", bad_detail="", **kw):
        if cond:
            kw.pop("text", None)
            kw.pop("witness", None)
            self.holds(rule, instance, ok_detail, **kw)
        else:
            self.violated(rule, instance, bad_detail or ok_detail, **kw)
        return cond

    def floor(self, rule, what, count, minimum):
        """Instance floor: a rule that matches fewer constructs than were confirmed by hand
        must not pass vacuously."""
        self.counters[f"{rule}:{what}"] = count
        if count < minimum:
            raise AnalysisError(f"{rule}: found {count} {what}, expected at least {minimum} (anchor vanished?)")

    def sample(self, obj):
        if len(self.samples) < 40:
            self.samples.append(obj)

    def note(self, text):
        self.notes.append(text)


def load_known():
    if not os.path.exists(KNOWN_FILE):
        return []
    with open(KNOWN_FILE) as f:
        return json.load(f).get("findings", [])


def match_known(prop, res: Result, known):
    for k in known:
        if k.get("status") != "known" or k.get("property") != prop:
            continue
        if k.get("rule") != res.rule or k.get("construct") != res.instance:
            continue
        if "text" in k and k["text"] != (res.text or ""):
            continue
        return k
    return None


def run_property(prop_id: str, mod, tier: str, seed: int, explain: Optional[str] = None) -> int:
    t0 = time.time()
    lines = []
    out = lines.append
    status = 0
    program = None
    ctx = None
    try:
        program = Program()
        ctx = Ctx(prop_id, program, tier)
        nfun = len(program.functions)
        out(f"indilint {prop_id} tier={tier} repo={program.root} modules={len(program.modules)} classes={len(program.classes)} functions={nfun}")
        if len(program.modules) < 40:
            raise AnalysisError(f"only {len(program.modules)} modules parsed under {program.root}/indi (expected >= 40)")
        for rule_id, fn, desc in mod.RULES:
            ctx.current_rule = rule_id
            before = len(ctx.results)
            try:
                fn(ctx)
            except Undecided as u:
                ctx.undecided(rule_id, "(rule)", str(u))
            if len(ctx.results) == before:
                raise AnalysisError(f"{rule_id} produced no obligation at all")
        # imported obligations: necessary conditions of this property that are decided by a rule of another property
        import importlib
        for modname, rid in getattr(mod, "IMPORTS", []):
            m2 = importlib.import_module(f"indilint.rules.{modname.lower()}")
            hit = [r for r in m2.RULES if r[0] == rid]
            if not hit:
                raise AnalysisError(f"imported rule {rid} not found in {modname}")
            ctx.current_rule = rid
            ctx.imported = getattr(ctx, "imported", []) + [rid]
            before = len(ctx.results)
            try:
                hit[0][1](ctx)
            except Undecided as u:
                ctx.undecided(rid, "(imported rule)", str(u))
            if len(ctx.results) == before:
                raise AnalysisError(f"imported {rid} produced no obligation at all")
    except AnalysisError as e:
        print("\n".join(lines))
        print(f"ANALYSIS-ERROR property={prop_id}: {e}")
        _write_evidence(prop_id, mod, tier, seed, ctx, program, time.time() - t0, error=str(e))
        return 2
    except Exception:
        print("\n".join(lines))
        print(f"ANALYSIS-ERROR property={prop_id}: engine exception\n{traceback.format_exc()}")
        _write_evidence(prop_id, mod, tier, seed, ctx, program, time.time() - t0, error="engine exception")
        return 2

    if tier == "thorough" and not explain and not os.environ.get("INDILINT_NO_SELFTEST"):
        # report-only: kill matrix of the self-test corpus for this property's rules (never changes the verdict)
        try:
            from .selftest.run import run_for_property
            ctx.selftest = run_for_property(prop_id)
            out(f"  selftest (report-only): {ctx.selftest['summary']} over {ctx.selftest['variants']} variants in {ctx.selftest['wall_s']} s")
            for r in ctx.selftest["results"]:
                if r["status"] in ("survived", "FALSE-ALARM", "harness-error"):
                    out(f"    selftest {r['status']}: {r['id']}")
        except Exception as e:  # the self-test must never break a check
            ctx.selftest = {"error": repr(e)}
    known = load_known()
    os.makedirs(REPLAY_DIR, exist_ok=True)
    for fn_ in os.listdir(REPLAY_DIR):
        if fn_.startswith(prop_id + "-"):
            os.unlink(os.path.join(REPLAY_DIR, fn_))
    nviol = 0
    nundec = 0
    violation_lines = []
    for r in ctx.results:
        if r.verdict == HOLDS:
            if tier == "thorough" or explain:
                out(f"  HOLDS     {r.rule} {r.instance} {('- ' + r.detail) if r.detail else ''}")
        elif r.verdict == UNDECIDED:
            nundec += 1
            out(f"  UNDECIDED {r.rule} {r.instance}: {r.detail}")
        elif r.verdict == VIOLATED:
            k = match_known(prop_id, r, known)
            loc = f"{r.file}:{r.line}" if r.file else "?"
            if k is not None:
                r.known = k
                out(f"KNOWN-FINDING: property={prop_id} {r.rule} {r.instance}: {str(k.get('what', r.detail))[:400]}")
                continue
            nviol += 1
            path = os.path.join(REPLAY_DIR, f"{prop_id}-{nviol}.json")
            _atomic_json(path, {"property": prop_id, "key": r.key, **r.to_json()})
            out(f"  VIOLATED  {loc} {r.rule} {r.instance}: {r.detail}" + (f"  [witness: {r.witness!r}]" if r.witness is not None else "") + (f"  [{r.text}]" if r.text else ""))
            violation_lines.append(f"VIOLATION property={prop_id} replay={path}")
    nh = sum(1 for r in ctx.results if r.verdict == HOLDS)
    out(f"  summary: obligations={len(ctx.results)} hold={nh} violated={nviol} known={sum(1 for r in ctx.results if r.known)} undecided={nundec}")
    for k, v in sorted(ctx.counters.items()):
        out(f"  instances {k} = {v}")
    lines.extend(violation_lines)
    if nviol:
        status = 1
    elif nundec:
        out(f"ANALYSIS-INCOMPLETE property={prop_id}: {nundec} obligation(s) outside the recognised idioms")
        status = 2
    print("\n".join(lines))
    _write_evidence(prop_id, mod, tier, seed, ctx, program, time.time() - t0, nviol=nviol)
    return status


def _atomic_json(path, obj):
    """Write-then-rename, so that concurrent runs of one property never leave a torn file."""
    os.makedirs(os.path.dirname(path), exist_ok=True)
    tmp = f"{path}.{os.getpid()}.tmp"
    with open(tmp, "w") as f:
        json.dump(obj, f, indent=1, default=str)
    os.replace(tmp, path)


def _write_evidence(prop_id, mod, tier, seed, ctx, program, wall, nviol=0, error=None):
    os.makedirs(EVIDENCE_DIR, exist_ok=True)
    results = ctx.results if ctx else []
    nh = sum(1 for r in results if r.verdict == HOLDS)
    distinct = len({(r.rule, r.instance) for r in results})
    samples = []
    seen_rules = {}
    for r in results:
        n = seen_rules.get(r.rule, 0)
        if n < 3 or r.verdict != HOLDS:
            samples.append(r.to_json())
            seen_rules[r.rule] = n + 1
    samples = samples[:60]
    if ctx:
        samples.extend(ctx.samples[:20])
    if not samples:
        samples = [{"note": "no obligation was evaluated", "error": error}]
    cov = {
        "explanation": getattr(mod, "EXPLANATION", "") + (f" [run aborted: {error}]" if error else ""),
        "rule": getattr(mod, "RULE_TEXT", "one obligation per rule instance found in the source (see samples); distinct = distinct (rule, construct) pairs; an instance is non-trivial when its premise matched a real construct of /repo"),
        "obligations": len(results),
        "discharged": nh,
        "undecided": sum(1 for r in results if r.verdict == UNDECIDED),
        "known_findings": sum(1 for r in results if r.known),
        "evaluations": max(len(results), 0),
        "distinct_nontrivial": distinct,
        "samples": samples,
        "checker_cmd": f"./check {prop_id} --tier {tier}",
        "trusted_base": getattr(mod, "TRUSTED", []),
        "rules": [{"id": rid, "what": desc} for rid, _, desc in getattr(mod, "RULES", [])],
        "imported_rules": [f"{m}:{r}" for m, r in getattr(mod, "IMPORTS", [])],
        "not_decided": getattr(mod, "NOT_DECIDED", ""),
        "units": {
            "repo": program.root if program else None,
            "modules": len(program.modules) if program else 0,
            "classes": len(program.classes) if program else 0,
            "functions": len(program.functions) if program else 0,
            "paths_enumerated": ctx.paths_enumerated if ctx else 0,
        },
        "instance_counts": ctx.counters if ctx else {},
        "exhaustive": bool(ctx and ctx.exhaustive_domains),
        "exhaustive_domains": ctx.exhaustive_domains if ctx else [],
        "notes": ctx.notes if ctx else [],
    }
    if ctx is not None and getattr(ctx, "selftest", None):
        st = ctx.selftest
        cov["selftest_report_only"] = {k: st.get(k) for k in ("variants", "summary", "wall_s", "error") if k in st}
        cov["selftest_results"] = [{"id": r["id"], "kind": r["kind"], "status": r["status"], "rule": r.get("rule")} for r in st.get("results", [])]
    ev = {
        "property_id": prop_id,
        "tier": tier,
        "seed": seed,
        "level": "other",
        "coverage": cov,
        "assumptions": getattr(mod, "ASSUMPTIONS", []),
        "wall_s": round(wall, 3),
        "violations": nviol,
    }
    _atomic_json(os.path.join(EVIDENCE_DIR, f"{prop_id}.json"), ev)
