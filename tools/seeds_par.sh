#!/bin/sh
# Like tools/seeds.sh, but in LANES scratch worktrees of /repo's HEAD (outside /repo and /verif, removed at the end)
# instead of /repo's own working tree, so that several seeded changes are examined at the same time.
# Usage: tools/seeds_par.sh [id ...]      (env LANES, default 4)
cd "$(dirname "$0")/.." || exit 2
ids="$@"; [ -z "$ids" ] && ids=$(ls seeded)
LANES=${LANES:-4}
T=$(mktemp -d /tmp/indilint-seedspar.XXXXXX)
HEAD=$(git -C /repo rev-parse HEAD)
lane() {
  L=$1; shift
  W=$T/wt-$L
  git -C /repo worktree add -q --detach $W $HEAD || exit 2
  for id in "$@"; do
    P=$PWD/seeded/$id/patch.diff
    [ -f "$P" ] || continue
    git -C $W checkout -q -- . ; git -C $W clean -fdq -- indi
    git -C $W apply "$P" || { echo "$id: patch does not apply"; continue; }
    for i in 01 02 03 04 05 06 07 08 09 10 11 12 13 14 15 16 17 18 19 20; do
      ( INDILINT_EVIDENCE_DIR=$T/ev-$L-$i INDILINT_NO_SELFTEST=1 ./check C$i --repo $W >/dev/null 2>&1; echo $? > $T/rc-$L-$i ) &
    done
    wait
    hit=""; inc=""
    for i in 01 02 03 04 05 06 07 08 09 10 11 12 13 14 15 16 17 18 19 20; do
      rc=$(cat $T/rc-$L-$i)
      [ "$rc" = 1 ] && hit="$hit C$i"
      [ "$rc" = 2 ] && inc="$inc C$i"
    done
    echo "$id: VIOLATION from:$hit ; analysis-incomplete:${inc:- none}"
  done
  git -C /repo worktree remove --force $W
}
n=0
for L in $(seq 1 $LANES); do eval "set_$L=''"; done
for id in $ids; do
  L=$(( n % LANES + 1 )); n=$(( n + 1 ))
  eval "set_$L=\"\$set_$L $id\""
done
for L in $(seq 1 $LANES); do
  eval "lane $L \$set_$L" &
done
wait
git -C /repo worktree prune
rm -rf $T
