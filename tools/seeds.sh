#!/bin/sh
# For every seeded change under /verif/seeded/<id>/: apply patch.diff to /repo, run all 20 quick checks (in parallel), undo.
# Prints which checks report a VIOLATION (exit 1) for it.  Usage: tools/seeds.sh [id ...]
cd "$(dirname "$0")/.." || exit 2
ids="$@"; [ -z "$ids" ] && ids=$(ls seeded)
T=$(mktemp -d /tmp/indilint-seeds.XXXXXX)
for id in $ids; do
  P=seeded/$id/patch.diff
  [ -f "$P" ] || continue
  git -C /repo diff --quiet || { echo "refusing: /repo has uncommitted changes"; rm -rf $T; exit 2; }
  git -C /repo apply "$PWD/$P" || { echo "$id: patch does not apply"; continue; }
  for i in 01 02 03 04 05 06 07 08 09 10 11 12 13 14 15 16 17 18 19 20; do
    ( INDILINT_EVIDENCE_DIR=$T/ev-$i INDILINT_NO_SELFTEST=1 ./check C$i >/dev/null 2>&1; echo $? > $T/rc-$i ) &
  done
  wait
  git -C /repo checkout -- .
  hit=""; inc=""
  for i in 01 02 03 04 05 06 07 08 09 10 11 12 13 14 15 16 17 18 19 20; do
    rc=$(cat $T/rc-$i)
    [ "$rc" = 1 ] && hit="$hit C$i"
    [ "$rc" = 2 ] && inc="$inc C$i"
  done
  echo "$id: VIOLATION from:$hit ; analysis-incomplete:${inc:- none}"
done
rm -rf $T
