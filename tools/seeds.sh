#!/bin/sh
# For every seeded change under /verif/seeded/<id>/: apply patch.diff to /repo, run all 20 quick checks, undo.
# Prints which checks report a VIOLATION (exit 1) for it.  Usage: tools/seeds.sh [id ...]
cd "$(dirname "$0")/.." || exit 2
ids="$@"; [ -z "$ids" ] && ids=$(ls seeded)
for id in $ids; do
  P=seeded/$id/patch.diff
  [ -f "$P" ] || continue
  git -C /repo diff --quiet || { echo "refusing: /repo has uncommitted changes"; exit 2; }
  git -C /repo apply "$PWD/$P" || { echo "$id: patch does not apply"; continue; }
  hit=""; inc=""
  for i in 01 02 03 04 05 06 07 08 09 10 11 12 13 14 15 16 17 18 19 20; do
    INDILINT_EVIDENCE_DIR=/tmp/indilint-seed-ev ./check C$i >/dev/null 2>&1; rc=$?
    [ $rc -eq 1 ] && hit="$hit C$i"
    [ $rc -eq 2 ] && inc="$inc C$i"
  done
  git -C /repo checkout -- .
  echo "$id: VIOLATION from:$hit ; analysis-incomplete:${inc:- none}"
done
rm -rf /tmp/indilint-seed-ev
