#!/bin/sh
# usage: tools/mut.sh <PROP> <file-relative-to-repo> <python-expr old> <python-expr new>   (quick ad-hoc mutation run)
P=$1; F=$2; OLD=$3; NEW=$4
D=$(mktemp -d /tmp/mut.XXXXXX)
mkdir -p $D; cp -r /repo/indi $D/indi
/venv/bin/python - "$D/$F" "$OLD" "$NEW" <<'PY'
import sys
p,old,new=sys.argv[1:4]
s=open(p).read()
assert s.count(old)>=1,("pattern not found",old)
s=s.replace(old,new,1)
compile(s,p,'exec')
open(p,'w').write(s)
PY
[ $? -eq 0 ] && ./check $P --repo $D 2>&1 | grep -v conda | grep -v HOLDS | head -${LINES_MAX:-12}
rm -rf $D
