#!/venv/bin/python
"""Regenerates /verif/MANIFEST.json from the rule modules that exist (run from /verif)."""
import importlib, json, os, sys
sys.path.insert(0, os.path.dirname(os.path.dirname(os.path.abspath(__file__))))
ROOT = os.path.dirname(os.path.dirname(os.path.abspath(__file__)))
NA_REASONS = {}
checks, na = [], []
for i in range(1, 21):
    pid = f"C{i:02d}"
    try:
        m = importlib.import_module(f"indilint.rules.{pid.lower()}")
    except ImportError:
        na.append({"property_id": pid, "reason": NA_REASONS.get(pid, "check not built yet (work in progress; DESIGN.md section 3 lists the planned rules)")})
        continue
    if getattr(m, "NOT_APPLICABLE", None):
        na.append({"property_id": pid, "reason": m.NOT_APPLICABLE})
        continue
    rules = ", ".join(r[0] for r in m.RULES)
    checks.append({
        "property_id": pid,
        "quick_cmd": f"./check {pid} --tier quick",
        "thorough_cmd": f"./check {pid} --tier thorough",
        "evidence_file": f"/verif/evidence/{pid}.json",
        "replay_cmd_template": f"./check {pid} --explain {{path}}",
        "engine": "indilint",
        "level_claimed": {
            "category": "other",
            "text": getattr(m, "LEVEL_TEXT", None) or ("Static analysis of /repo's source (no execution): decides the structural obligations " + rules + ". " + m.EXPLANATION),
            "design_ref": f"DESIGN.md section 3 / {pid}",
        },
        "level_note": "Decides the structural (necessary) clauses only, not the behaviour over all inputs. NOT decided: " + getattr(m, "NOT_DECIDED", "") + " Trusted base: " + "; ".join(getattr(m, "ASSUMPTIONS", [])),
        "technique": getattr(m, "TECHNIQUE", "static analysis: AST program model + path-enumerating abstract interpretation"),
    })
man = {
    "version": 1,
    "setup_cmd": "/venv/bin/python -c \"import ast, re._parser, json\"",
    "hooks": {
        "guard": "INDIPY_VERIF",
        "enable": "none needed: the checks parse /repo's sources and execute nothing, so no hook or instrumentation exists in /repo",
        "baseline_off_cmd": "cd /repo && /venv/bin/python -m pytest -q -p no:cacheprovider --timeout=900",
        "source_commits": [],
        "add_only": True,
    },
    "engines": [{
        "name": "indilint",
        "path": "/verif/indilint",
        "serves_properties": [c["property_id"] for c in checks],
        "kind_free_text": "repository-specific static analyser (stdlib ast only): program model with static MRO and constructor signatures, path-enumerating abstract interpreter over abstract values, regex-to-DFA language inclusion, exception-escape analysis",
    }],
    "checks": checks,
    "notes": "Static analysis only (see DESIGN.md). Exit 0 holds / 1 VIOLATION / 2 analysis error or construct outside the recognised idioms. Genuine defects found on the pinned tree were repaired with 'fix:' commits in /repo and are listed as 'fixed' in /verif/known_findings.json.",
    "not_applicable": na,
}
json.dump(man, open(os.path.join(ROOT, "MANIFEST.json"), "w"), indent=1)
print("checks:", [c["property_id"] for c in checks], "n/a:", [n["property_id"] for n in na])
