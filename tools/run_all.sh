#!/bin/sh
# runs every check (tier from $1, default quick) against /repo (or $INDILINT_REPO) and prints one line per property
cd "$(dirname "$0")/.." || exit 2
T=${1:-quick}
for i in 01 02 03 04 05 06 07 08 09 10 11 12 13 14 15 16 17 18 19 20; do
  s=$(date +%s.%N)
  out=$(./check C$i --tier $T 2>&1); rc=$?
  e=$(date +%s.%N)
  printf "C%s rc=%s %5.1fs %s\n" $i $rc $(echo "$e - $s" | bc) "$(echo "$out" | grep summary | sed 's/^ *//')"
  [ $rc -ne 0 ] && echo "$out" | grep -E "VIOLATED|UNDECIDED|ANALYSIS" | cut -c1-220 | head -5
done
